(* Scope.v — model of the namespace scope queries of src/nameaccess.rs and src/xmlname/reference.rs over a cursor:
   namespaces_in_scope (namespace_traverse), namespace_for_prefix, prefix_for_namespace, is_prefix_defined,
   inherited_prefixes, unresolved_namespaces, full_name / name_ref / node_name_ref.  No proofs here. *)
From XotV Require Import Model.Base Model.Zipper Model.Access Model.Fullname.
Open Scope N_scope.

(* the declarations an element carries, in view order (self.namespaces(node).iter()) *)
Definition ns_of_val (v : value) : option (prefixid * nsid) :=
  match v with VNamespace p n => Some (p, n) | _ => None end.

Fixpoint opt_map {A B} (f : A -> option B) (l : list A) : list B :=
  match l with [] => [] | x :: l' => match f x with Some y => y :: opt_map f l' | None => opt_map f l' end end.

Definition declarations (z : zipper) : decls := opt_map (fun c => ns_of_val (z_val c)) (namespace_nodes z).

(* the attribute names of an element, in view order *)
Definition attr_names (z : zipper) : list nameid :=
  opt_map (fun c => match z_val c with VAttribute n _ => Some n | _ => None end) (attribute_nodes z).

Section WithBuiltins.
  Variables (empty_prefix xml_prefix : prefixid) (no_ns xml_ns : nsid).
  Variable ns_of_name : nameid -> nsid.              (* Xot::namespace_for_name *)

  Definition base_prefixes : decls := [(xml_prefix, xml_ns)].

  Definition pmem (p : prefixid) (l : list prefixid) : bool := existsb (N.eqb p) l.

  (* one ancestor's declarations folded into (seen, yielded so far) *)
  Fixpoint traverse_decls (d : decls) (seen : list prefixid) (acc : decls) : list prefixid * decls :=
    match d with
    | [] => (seen, acc)
    | (p, ns) :: d' =>
        if pmem p seen then traverse_decls d' seen acc
        else
          let undeclaration := N.eqb empty_prefix p && N.eqb ns no_ns in
          traverse_decls d' (seen ++ [p]) (if undeclaration then acc else acc ++ [(p, ns)])
    end.

  (* namespace_traverse: ancestors-or-self, nearest first, then the base prefixes *)
  Definition namespaces_in_scope (z : zipper) : decls :=
    let '(seen, acc) :=
      fold_left (fun sa a => traverse_decls (declarations a) (fst sa) (snd sa)) (ancestors z) ([], []) in
    snd (traverse_decls base_prefixes seen acc).

  Fixpoint assoc_p (p : prefixid) (d : decls) : option nsid :=
    match d with [] => None | (q, ns) :: d' => if N.eqb q p then Some ns else assoc_p p d' end.

  (* namespace_for_prefix *)
  Fixpoint nfp_walk (l : list zipper) (p : prefixid) : option (option nsid) :=
    match l with
    | [] => None
    | a :: l' => match assoc_p p (declarations a) with
                 | Some ns => Some (if N.eqb ns no_ns then None else Some ns)
                 | None => nfp_walk l' p
                 end
    end.
  Definition namespace_for_prefix (z : zipper) (p : prefixid) : option nsid :=
    match nfp_walk (ancestors z) p with
    | Some r => r
    | None => assoc_p p base_prefixes
    end.

  (* prefix_for_namespace_with(node, ns, allow_empty_prefix) *)
  Fixpoint pfn_decls (d : decls) (ns : nsid) (allow_empty : bool) (seen : list prefixid) : list prefixid * option prefixid :=
    match d with
    | [] => (seen, None)
    | (p, n) :: d' =>
        if pmem p seen then pfn_decls d' ns allow_empty seen
        else if N.eqb n ns && (allow_empty || negb (N.eqb p empty_prefix)) then (seen ++ [p], Some p)
        else pfn_decls d' ns allow_empty (seen ++ [p])
    end.

  Fixpoint pfn_walk (l : list decls) (ns : nsid) (allow_empty : bool) (seen : list prefixid) : option prefixid :=
    match l with
    | [] => None
    | d :: l' => match pfn_decls d ns allow_empty seen with
                 | (_, Some p) => Some p
                 | (seen', None) => pfn_walk l' ns allow_empty seen'
                 end
    end.

  Definition prefix_for_namespace_with (z : zipper) (ns : nsid) (allow_empty : bool) : option prefixid :=
    pfn_walk (map declarations (ancestors z) ++ [base_prefixes]) ns allow_empty [].

  Definition prefix_for_namespace (z : zipper) (ns : nsid) : option prefixid := prefix_for_namespace_with z ns true.

  Definition is_attribute_node (z : zipper) : bool := vtype_eqb (ztype z) TAttribute.

  Definition prefix_for_node_name (z : zipper) (ns : nsid) : option prefixid :=
    prefix_for_namespace_with z ns (negb (is_attribute_node z)).

  (* is_prefix_defined *)
  Definition is_prefix_defined (z : zipper) (p : prefixid) : bool :=
    match namespace_for_prefix z p with Some _ => true | None => false end.

  (* full_name(node, name): None = Err(MissingPrefix); Some (prefix option) otherwise *)
  Definition full_name_prefix (z : zipper) (name : nameid) : option (option prefixid) :=
    let ns := ns_of_name name in
    if N.eqb ns no_ns then Some None else
    match prefix_for_node_name z ns with
    | Some p => Some (if N.eqb p empty_prefix then None else Some p)
    | None => None
    end.

  (* RefName::from_node: the prefix id of the reference; None = Err(MissingPrefix) *)
  Definition name_ref_prefix (z : zipper) (name : nameid) : option prefixid :=
    let ns := ns_of_name name in
    if negb (N.eqb ns no_ns) then prefix_for_node_name z ns else Some empty_prefix.

  Definition node_name (z : zipper) : option nameid :=
    match z_val z with
    | VElement n => Some n | VPI t _ => Some t | VAttribute n _ => Some n | _ => None
    end.

  (* unresolved_namespaces: a fold over the traverse edges with a FullnameSerializer that starts from the base prefixes *)
  Fixpoint unresolved_edges (es : list edge) (s : fstack) (acc : list nsid) : list nsid :=
    match es with
    | [] => acc
    | EStart z :: es' =>
        match z_val z with
        | VElement name =>
            let s1 := fs_push s (declarations z) in
            (* a name in no namespace needs no prefix *)
            let acc1 := if N.eqb (ns_of_name name) no_ns || is_namespace_known s1 (ns_of_name name) then acc else acc ++ [ns_of_name name] in
            (* an attribute name in a namespace needs a non-empty prefix: the default namespace does not resolve it *)
            let acc2 := fold_left (fun a n =>
                                     let ns := ns_of_name n in
                                     let prefixed := match attribute_prefix empty_prefix no_ns s1 ns with PMissing => false | _ => true end in
                                     if N.eqb ns no_ns || (is_namespace_known s1 ns && prefixed) then a else a ++ [ns])
                                  (attr_names z) acc1 in
            unresolved_edges es' s1 acc2
        | _ => unresolved_edges es' s acc
        end
    | EEnd z :: es' =>
        match z_val z with
        | VElement _ => unresolved_edges es' (fs_pop s (match declarations z with [] => false | _ => true end)) acc
        | _ => unresolved_edges es' s acc
        end
    end.

  (* the walk starts from base_prefixes(): the xml prefix is always bound *)
  Definition unresolved_namespaces (z : zipper) : list nsid := unresolved_edges (traverse z) (fs_new base_prefixes) [].

  (* inherited_prefixes: the in-scope bindings of the parent whose namespace is unresolved in the subtree
     (a HashMap in the implementation: compared as a set) *)
  Definition inherited_prefixes (z : zipper) : decls :=
    let inscope := match parent z with Some p => namespaces_in_scope p | None => [] end in
    let unres := unresolved_namespaces z in
    (* ... and that the node does not declare itself *)
    filter (fun x => existsb (N.eqb (snd x)) unres && negb (has_prefix (fst x) (declarations z))) inscope.
End WithBuiltins.
