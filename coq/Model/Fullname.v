(* Fullname.v — model of src/output/fullname.rs: the stack of namespace declarations a serializer keeps while it
   walks a tree, and how a prefix is chosen for an element or attribute name.  No proofs here. *)
From XotV Require Import Model.Base.
Open Scope N_scope.

Definition decls := list (prefixid * nsid).          (* NamespaceDeclarations *)
Definition fstack := list decls.                     (* FullnameSerializer.stack, top first *)

Definition has_prefix (p : prefixid) (d : decls) : bool := existsb (fun x => N.eqb (fst x) p) d.

(* FullnameInfo::new: drop what the node overrides, then append the node's own declarations *)
Definition info_new (node_ns : decls) (current : decls) : decls :=
  filter (fun x => negb (has_prefix (fst x) node_ns)) current ++ node_ns.

Definition fs_new (defined : decls) : fstack := [defined].
Definition fs_top (s : fstack) : decls := match s with t :: _ => t | [] => [] end.

(* push: nothing happens for an element without declarations *)
Definition fs_push (s : fstack) (d : decls) : fstack :=
  match d with [] => s | _ => info_new d (fs_top s) :: s end.

(* pop(has_namespaces) *)
Definition fs_pop (s : fstack) (has_ns : bool) : fstack :=
  if has_ns then match s with _ :: s' => s' | [] => [] end else s.

(* prefixes_by_namespace: most recently declared first *)
Definition prefixes_by_namespace (d : decls) (ns : nsid) : list prefixid :=
  map fst (filter (fun x => N.eqb (snd x) ns) (rev d)).

Section WithBuiltins.
  Variables (empty_prefix : prefixid) (no_ns : nsid).

  (* element_prefix_by_namespace: prefer the empty prefix, else the most recent one *)
  Definition element_prefix_by_namespace (d : decls) (ns : nsid) : option prefixid :=
    let ps := prefixes_by_namespace d ns in
    if existsb (N.eqb empty_prefix) ps then Some empty_prefix else hd_error ps.

  (* attribute_prefix_by_namespace: the most recent non-empty prefix *)
  Definition attribute_prefix_by_namespace (d : decls) (ns : nsid) : option prefixid :=
    List.find (fun p => negb (N.eqb p empty_prefix)) (prefixes_by_namespace d ns).

  Inductive pfx := PNone | PSome (p : prefixid) | PMissing.     (* Ok(None) | Ok(Some p) | Err(MissingPrefix) *)

  (* element_prefix(name) given the namespace of the name *)
  Definition element_prefix (s : fstack) (ns : nsid) : pfx :=
    if N.eqb ns no_ns then PNone else
    match element_prefix_by_namespace (fs_top s) ns with
    | Some p => if N.eqb p empty_prefix then PNone else PSome p
    | None => PMissing
    end.

  Definition attribute_prefix (s : fstack) (ns : nsid) : pfx :=
    if N.eqb ns no_ns then PNone else
    match attribute_prefix_by_namespace (fs_top s) ns with
    | Some p => PSome p
    | None => PMissing
    end.

  Definition is_namespace_known (s : fstack) (ns : nsid) : bool := existsb (fun x => N.eqb (snd x) ns) (fs_top s).

  Definition has_empty_prefix (s : fstack) (ns : nsid) : bool :=
    match element_prefix_by_namespace (fs_top s) ns with Some p => N.eqb p empty_prefix | None => false end.

  (* the new binding replaces any other binding of the empty prefix *)
  Definition add_empty_prefix (s : fstack) (ns : nsid) : fstack :=
    match s with
    | t :: s' => (filter (fun x => negb (N.eqb (fst x) empty_prefix)) t ++ [(empty_prefix, ns)]) :: s'
    | [] => []
    end.
End WithBuiltins.
