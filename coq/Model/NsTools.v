(* NsTools.v — model of Xot::create_missing_prefixes and Xot::deduplicate_namespaces (src/nameaccess.rs).  No proofs here.

   Both first analyse the subtree with a FullnameSerializer that starts EMPTY (declarations above the node are not
   consulted) and then edit the namespace nodes through the mutable namespace map. *)
From XotV Require Import Model.Base Model.Zipper Model.Access Model.Store Model.Manip Model.Interning Model.InternOps
                         Model.Fullname Model.Scope.
Open Scope N_scope.

Record nsnames := {
  ns_empty_prefix : prefixid; ns_xml_prefix : prefixid; ns_no_ns : nsid; ns_xml_ns : nsid;
  ns_of_name : nameid -> nsid                      (* Xot::namespace_for_name *)
}.

Section NsTools.
  Variable nm : nsnames.
  Notation ep := (ns_empty_prefix nm).
  Notation nn := (ns_no_ns nm).

  Definition nsmem (x : N) (l : list N) : bool := existsb (N.eqb x) l.
  Definition add_once (x : N) (l : list N) : list N := if nsmem x l then l else l ++ [x].

  Definition is_missing (p : pfx) : bool := match p with PMissing => true | _ => false end.

  (* ---------- create_missing_prefixes ---------- *)

  (* the namespaces no prefix can be found for, in the order they are met, without repeats *)
  Fixpoint missing_edges (es : list edge) (s : fstack) (acc : list nsid) : list nsid :=
    match es with
    | [] => acc
    | EStart z :: es' =>
        match z_val z with
        | VElement name =>
            let s1 := fs_push s (declarations z) in
            let acc1 := if is_missing (element_prefix ep nn s1 (ns_of_name nm name)) then add_once (ns_of_name nm name) acc else acc in
            let acc2 := fold_left (fun a n => if is_missing (attribute_prefix ep nn s1 (ns_of_name nm n))
                                              then add_once (ns_of_name nm n) a else a) (attr_names z) acc1 in
            missing_edges es' s1 acc2
        | _ => missing_edges es' s acc
        end
    | EEnd z :: es' =>
        match z_val z with
        | VElement _ => missing_edges es' (fs_pop s (match declarations z with [] => false | _ => true end)) acc
        | _ => missing_edges es' s acc
        end
    end.

  (* the serialiser starts with the base prefixes (xml) known *)
  Definition missing_namespaces (z : zipper) : list nsid :=
    missing_edges (traverse z) (fs_new [(ns_xml_prefix nm, ns_xml_ns nm)]) [].

  (* the prefixes a generated one must avoid: bound in the scope of the node, or declared anywhere below it *)
  Definition used_prefixes (z : zipper) : list prefixid :=
    map fst (namespaces_in_scope ep (ns_xml_prefix nm) nn (ns_xml_ns nm) z)
    ++ flat_map (fun d => match z_val d with VElement _ => map fst (declarations d) | _ => [] end) (descendants z).

  (* decimal digits of a number *)
  Fixpoint dec_digits (fuel : nat) (n : N) (acc : str) : str :=
    match fuel with
    | O => acc
    | S f => let acc' := (48 + n mod 10) :: acc in
             if n <? 10 then acc' else dec_digits f (n / 10) acc'
    end.
  Definition to_dec (n : N) : str := dec_digits (S (N.to_nat (N.size n))) n [].

  (* the loop `n{i}` until the prefix is new; [fuel] bounds the search (one more than the prefixes to avoid always suffices:
     the names n0, n1, ... are pairwise different) *)
  Fixpoint fresh_prefix (fuel : nat) (t : tables) (i : N) (used : list prefixid) : option (prefixid * tables * N) :=
    match fuel with
    | O => None
    | S f =>
        match x_add_prefix t (110 :: to_dec i) with
        | RPanic => None
        | ROk (p, t') => if nsmem p used then fresh_prefix f t' (i + 1) used else Some (p, t', i + 1)
        end
    end.

  Fixpoint assign_prefixes (t : tables) (i : N) (used : list prefixid) (missing : list nsid)
    : option (list (prefixid * nsid) * tables) :=
    match missing with
    | [] => Some ([], t)
    | ns :: rest =>
        match fresh_prefix (S (length used)) t i used with
        | None => None
        | Some (p, t', i') =>
            match assign_prefixes t' i' (p :: used) rest with
            | None => None
            | Some (l, t'') => Some ((p, ns) :: l, t'')
            end
        end
    end.

  Inductive nres := NOk (t : tables) (st : xstate) | NErrNotElement | NPanic.

  (* create_missing_prefixes on an element *)
  Definition cmp_element (t : tables) (st : xstate) (e : N) : nres :=
    match cur st e with
    | None => NPanic
    | Some z =>
        match z_val z with
        | VElement _ =>
            match assign_prefixes t 0 (used_prefixes z) (missing_namespaces z) with
            | None => NPanic
            | Some (l, t') =>
                NOk t' (fold_left (fun s d => map_insert s KNs e (VNamespace (fst d) (snd d))) l st)
            end
        | _ => NErrNotElement
        end
    end.

  Fixpoint cmp_elements (t : tables) (st : xstate) (l : list N) : nres :=
    match l with
    | [] => NOk t st
    | e :: l' => match cmp_element t st e with
                 | NOk t' st' => cmp_elements t' st' l'
                 | r => r
                 end
    end.

  (* Xot::create_missing_prefixes *)
  Definition create_missing_prefixes (t : tables) (st : xstate) (n : N) : nres :=
    match cur st n with
    | None => NPanic
    | Some z =>
        match z_val z with
        | VDocument => cmp_elements t st (slots_of (filter is_element (children z)))
        | _ => cmp_element t st n
        end
    end.

  (* ---------- deduplicate_namespaces ---------- *)

  (* DeduplicateTrackerEntry: default_namespace, in_use_by_attribute *)
  Definition tentry := (option nsid * bool)%type.

  Definition opt_ns_eqb (a : option nsid) (b : nsid) : bool := match a with Some x => N.eqb x b | None => false end.

  (* attribute_name: mark EVERY entry whose default namespace is the attribute's namespace (the innermost such declaration may
     itself be redundant) *)
  Fixpoint tracker_mark (stack : list tentry) (ns : nsid) : list tentry :=      (* innermost first *)
    match stack with
    | [] => []
    | (d, used) :: rest => (d, if opt_ns_eqb d ns then true else used) :: tracker_mark rest ns
    end.

  Definition tracker_push (stack : list tentry) (z : zipper) : list tentry :=
    fold_left (fun s a => tracker_mark s (ns_of_name nm a)) (attr_names z) ((assoc_p ep (declarations z), false) :: stack).

  Fixpoint tracker_safe (stack : list tentry) (ns : nsid) : bool :=
    match stack with
    | [] => true
    | (d, used) :: rest => if opt_ns_eqb d ns then negb used else tracker_safe rest ns
    end.

  (* the analysis pass: (element, namespaces to remove) in the order the end tags are met *)
  Fixpoint dedup_edges (es : list edge) (s : fstack) (tr : list tentry) (acc : list (N * list nsid)) : list (N * list nsid) :=
    match es with
    | [] => acc
    | EStart z :: es' =>
        match z_val z with
        | VElement _ => dedup_edges es' (fs_push s (declarations z)) (tracker_push tr z) acc
        | _ => dedup_edges es' s tr acc
        end
    | EEnd z :: es' =>
        match z_val z with
        | VElement _ =>
            let s1 := fs_pop s (match declarations z with [] => false | _ => true end) in
            let tr1 := tl tr in
            let to_remove := opt_map (fun d => if is_namespace_known s1 (snd d) && tracker_safe tr1 (snd d) then Some (snd d) else None)
                                     (declarations z) in
            dedup_edges es' s1 tr1 (match to_remove with [] => acc | _ => acc ++ [(z_slot z, to_remove)] end)
        | _ => dedup_edges es' s tr acc
        end
    end.

  (* the prefixes to delete: for each fix-up node and each namespace to remove, every prefix the node binds to it *)
  Definition dedup_prefixes (z : zipper) (fix_ups : list (N * list nsid)) : list (N * prefixid) :=
    flat_map (fun f =>
                let '(e, nss) := f in
                match List.find (fun d => N.eqb (z_slot d) e) (descendants z) with
                | None => []
                | Some ez => flat_map (fun ns => map (fun d => (e, fst d)) (filter (fun d => N.eqb (snd d) ns) (declarations ez))) nss
                end) fix_ups.

  (* Xot::deduplicate_namespaces *)
  Definition deduplicate_namespaces (st : xstate) (n : N) : option xstate :=
    match cur st n with
    | None => None
    | Some z =>
        let fix_ups := dedup_edges (traverse z) (fs_new []) [] [] in
        Some (fold_left (fun s ep' => map_remove s KNs (fst ep') (snd ep')) (dedup_prefixes z fix_ups) st)
    end.
End NsTools.
