(* Unpretty.v — model of src/unpretty.rs (Xot::remove_insignificant_whitespace).  No proofs here.

   The Rust code first collects, over `descendants(node)`, every text node for which
   `is_insignificant_whitespace` holds and then removes them one by one with `Xot::remove`.  The decision for a
   text node depends on (a) its own characters, (b) the other text nodes of its sibling list and (c) the nearest
   xml:space attribute on its ancestors; none of these is changed by removing other whitespace-only text nodes,
   so the model computes the resulting child lists structurally ([strip]) together with the list of removed
   slots in document order ([stripped], the order in which the arena slots are freed). *)
From XotV Require Import Model.Base Model.Zipper Model.Access Model.Store Model.Manip.
Open Scope N_scope.

(* is_whitespace: XML white space only *)
Definition is_ws_char (c : cp) : bool := (c =? 32) || (c =? 9) || (c =? 13) || (c =? 10).
Definition is_ws_str (s : str) : bool := forallb is_ws_char s.

(* is_significant_text_node *)
Definition significant_text (v : value) : bool :=
  match v with VText s => negb (is_ws_str s) | _ => false end.

Definition ws_text (v : value) : bool :=
  match v with VText s => is_ws_str s | _ => false end.

(* some node of this sibling list is a text node with other content than white space *)
Fixpoint level_sig (f : forest) : bool :=
  match f with
  | FNil => false
  | FCons _ v _ r => significant_text v || level_sig r
  end.

(* attributes(node).get(name): namespace nodes first, then attribute nodes *)
Fixpoint skip_ns (f : forest) : forest :=
  match f with
  | FCons _ (VNamespace _ _) _ r => skip_ns r
  | _ => f
  end.

Fixpoint find_attr (name : nameid) (f : forest) : option str :=
  match f with
  | FCons _ (VAttribute n v) _ r => if N.eqb n name then Some v else find_attr name r
  | _ => None
  end.

Definition s_preserve : str := [112; 114; 101; 115; 101; 114; 118; 101].

Section Unpretty.
  Variable space : nameid.          (* xml:space *)

  (* the xml:space decision an element makes for its content: Some true = preserve, Some false = any other value *)
  Definition own_space (kids : forest) : option bool :=
    match find_attr space (skip_ns kids) with
    | Some v => Some (str_eqb v s_preserve)
    | None => None
    end.

  Definition space_below (preserve : bool) (kids : forest) : bool :=
    match own_space kids with Some b => b | None => preserve end.

  (* is_insignificant_whitespace for a node of a sibling list whose parent decides [preserve] and that contains a
     significant text node iff [sig] *)
  Definition insignificant (preserve sig : bool) (v : value) : bool :=
    negb preserve && negb sig && ws_text v.

  (* the sibling list after the call *)
  Fixpoint strip (preserve sig : bool) (f : forest) : forest :=
    match f with
    | FNil => FNil
    | FCons i v k r =>
        if insignificant preserve sig v then strip preserve sig r
        else FCons i v (strip (space_below preserve k) (level_sig k) k) (strip preserve sig r)
    end.

  (* the removed nodes, in document order *)
  Fixpoint stripped (preserve sig : bool) (f : forest) : list N :=
    match f with
    | FNil => []
    | FCons i v k r =>
        if insignificant preserve sig v then i :: ids k ++ stripped preserve sig r     (* remove_subtree frees the whole subtree *)
        else stripped (space_below preserve k) (level_sig k) k ++ stripped preserve sig r
    end.

  (* in_preserve_space(node): the nearest xml:space attribute on ancestors-or-self *)
  Fixpoint nearest_space (l : list zipper) : bool :=
    match l with
    | [] => false
    | a :: l' => match own_space (z_kids a) with Some b => b | None => nearest_space l' end
    end.

  (* replace the children of node [n] *)
  Fixpoint fset_kids (n : N) (k' : forest) (f : forest) : forest :=
    match f with
    | FNil => FNil
    | FCons i v k r =>
        if N.eqb i n then FCons i v k' r
        else FCons i v (fset_kids n k' k) (fset_kids n k' r)
    end.

  (* Xot::remove_insignificant_whitespace(node); None = the node is not live (Rust: panic) *)
  Definition rmws (st : xstate) (n : N) : option xstate :=
    match cur st n with
    | None => None
    | Some z =>
        let preserve := nearest_space (ancestors z) in
        match z_val z with
        | VText _ =>
            (* the node itself is judged among its own siblings *)
            let sig := level_sig (z_before z) || level_sig (z_after z) in
            if insignificant preserve sig (z_val z)
            then Some (fst (m_remove st n))        (* Xot::remove, with its text consolidation around the gap *)
            else Some st
        | _ =>
            let sig := level_sig (z_kids z) in
            Some (free_slots (with_store st (fset_kids n (strip preserve sig (z_kids z)) (store st)))
                             (stripped preserve sig (z_kids z)))
        end
    end.
End Unpretty.
