(* Base.v — data shared by every model file.  No proofs here.
   cp   : Unicode scalar value (N)
   str  : Rust String = list of scalar values
   ids  : N (index into the interning tables, see Interning.v)
   value: xot::Value
   forest: left-child / right-sibling representation of indextree's first_child / next_sibling shape. *)
From Coq Require Export List NArith ZArith Bool.
Export ListNotations.
Open Scope N_scope.

Definition cp := N.
Definition str := list cp.
Definition nameid := N.
Definition nsid := N.
Definition prefixid := N.

Fixpoint str_eqb (a b : str) : bool :=
  match a, b with
  | [], [] => true
  | x :: a', y :: b' => N.eqb x y && str_eqb a' b'
  | _, _ => false
  end.

Inductive value :=
| VDocument
| VElement (n : nameid)
| VText (s : str)
| VPI (target : nameid) (data : option str)
| VComment (s : str)
| VAttribute (n : nameid) (v : str)
| VNamespace (p : prefixid) (ns : nsid).

Inductive vtype := TDocument | TElement | TText | TPI | TComment | TAttribute | TNamespace.
Inductive vcat := CNormal | CAttribute | CNamespace.

Definition value_type (v : value) : vtype :=
  match v with
  | VDocument => TDocument | VElement _ => TElement | VText _ => TText | VPI _ _ => TPI
  | VComment _ => TComment | VAttribute _ _ => TAttribute | VNamespace _ _ => TNamespace
  end.

Definition value_category (v : value) : vcat :=
  match v with
  | VAttribute _ _ => CAttribute
  | VNamespace _ _ => CNamespace
  | _ => CNormal
  end.

Definition vcat_eqb (a b : vcat) : bool :=
  match a, b with
  | CNormal, CNormal | CAttribute, CAttribute | CNamespace, CNamespace => true
  | _, _ => false
  end.

Definition vtype_eqb (a b : vtype) : bool :=
  match a, b with
  | TDocument, TDocument | TElement, TElement | TText, TText | TPI, TPI
  | TComment, TComment | TAttribute, TAttribute | TNamespace, TNamespace => true
  | _, _ => false
  end.

Definition is_normal (v : value) : bool :=
  match value_category v with CNormal => true | _ => false end.

Definition opt_str_eqb (a b : option str) : bool :=
  match a, b with
  | None, None => true
  | Some x, Some y => str_eqb x y
  | _, _ => false
  end.

Definition value_eqb (a b : value) : bool :=
  match a, b with
  | VDocument, VDocument => true
  | VElement n, VElement m => N.eqb n m
  | VText s, VText t => str_eqb s t
  | VPI t d, VPI t' d' => N.eqb t t' && opt_str_eqb d d'
  | VComment s, VComment t => str_eqb s t
  | VAttribute n v, VAttribute m w => N.eqb n m && str_eqb v w
  | VNamespace p n, VNamespace q m => N.eqb p q && N.eqb n m
  | _, _ => false
  end.

(* A node is identified by its arena slot.  [kids] holds ALL arena children of the node in arena order:
   namespace nodes, attribute nodes and normal nodes. *)
Inductive forest :=
| FNil
| FCons (slot : N) (v : value) (kids : forest) (rest : forest).

(* pre-order = document order (raw: including namespace and attribute nodes) *)
Fixpoint ids (f : forest) : list N :=
  match f with
  | FNil => []
  | FCons i _ k r => i :: ids k ++ ids r
  end.

(* the same with the values attached *)
Definition node := (N * value)%type.
Fixpoint nodes (f : forest) : list node :=
  match f with
  | FNil => []
  | FCons i v k r => (i, v) :: nodes k ++ nodes r
  end.

Fixpoint fsize (f : forest) : nat :=
  match f with
  | FNil => O
  | FCons _ _ k r => S (fsize k + fsize r)
  end.

Fixpoint fapp (a b : forest) : forest :=
  match a with
  | FNil => b
  | FCons i v k r => FCons i v k (fapp r b)
  end.

(* the top-level sibling list of a forest, as (slot, value, kids) triples *)
Fixpoint roots (f : forest) : list (N * value * forest) :=
  match f with
  | FNil => []
  | FCons i v k r => (i, v, k) :: roots r
  end.

Fixpoint of_roots (l : list (N * value * forest)) : forest :=
  match l with
  | [] => FNil
  | (i, v, k) :: l' => FCons i v k (of_roots l')
  end.

(* find the subtree rooted at slot [n]: returns (value, kids) *)
Fixpoint find (n : N) (f : forest) : option (value * forest) :=
  match f with
  | FNil => None
  | FCons i v k r =>
      if N.eqb i n then Some (v, k)
      else match find n k with
           | Some x => Some x
           | None => find n r
           end
  end.

(* parent slot of [n] in [f]; [up] is the slot of the node owning the sibling list [f] *)
Fixpoint parent_in (up : option N) (n : N) (f : forest) : option (option N) :=
  match f with
  | FNil => None
  | FCons i v k r =>
      if N.eqb i n then Some up
      else match parent_in (Some i) n k with
           | Some x => Some x
           | None => parent_in up n r
           end
  end.
