(* Zipper.v — a cursor into a forest: the model's counterpart of a NodeId into the indextree arena.
   `arena[n].next_sibling`, `.previous_sibling`, `.first_child`, `.last_child`, `.parent` become the O(1)
   moves right / left / down_first / down_last / up on the cursor.  No proofs here. *)
From XotV Require Import Model.Base.
Open Scope N_scope.

(* an ancestor of the focus: its slot and value, and its own siblings *)
Record frame := {
  fr_slot : N; fr_val : value;
  fr_before : forest;     (* preceding siblings of the ancestor, NEAREST FIRST (reversed) *)
  fr_after : forest       (* following siblings of the ancestor, in order *)
}.

Record zipper := {
  z_slot : N; z_val : value; z_kids : forest;
  z_before : forest;      (* preceding siblings of the focus, nearest first (reversed) *)
  z_after : forest;       (* following siblings, in order *)
  z_ups : list frame      (* ancestors, nearest first *)
}.

(* reverse a sibling list onto an accumulator *)
Fixpoint frev_app (a acc : forest) : forest :=
  match a with
  | FNil => acc
  | FCons i v k r => frev_app r (FCons i v k acc)
  end.

Definition frev (a : forest) : forest := frev_app a FNil.

(* the sibling list the focus lives in: rev before ++ focus :: after *)
Definition z_level (z : zipper) : forest :=
  frev_app (z_before z) (FCons (z_slot z) (z_val z) (z_kids z) (z_after z)).

(* rebuild the tree that contains the focus (top-level nodes have no siblings) *)
Fixpoint plug_ups (level : forest) (ups : list frame) : forest :=
  match ups with
  | [] => level
  | fr :: ups' => plug_ups (frev_app (fr_before fr) (FCons (fr_slot fr) (fr_val fr) level (fr_after fr))) ups'
  end.

Definition plug (z : zipper) : forest := plug_ups (z_level z) (z_ups z).

(* ---- moves ---- *)
Definition down_first (z : zipper) : option zipper :=
  match z_kids z with
  | FNil => None
  | FCons i v k r =>
      Some {| z_slot := i; z_val := v; z_kids := k; z_before := FNil; z_after := r;
              z_ups := {| fr_slot := z_slot z; fr_val := z_val z; fr_before := z_before z; fr_after := z_after z |}
                       :: z_ups z |}
  end.

Definition right (z : zipper) : option zipper :=
  match z_after z with
  | FNil => None
  | FCons i v k r =>
      Some {| z_slot := i; z_val := v; z_kids := k;
              z_before := FCons (z_slot z) (z_val z) (z_kids z) (z_before z); z_after := r; z_ups := z_ups z |}
  end.

Definition left (z : zipper) : option zipper :=
  match z_before z with
  | FNil => None
  | FCons i v k r =>
      Some {| z_slot := i; z_val := v; z_kids := k;
              z_before := r; z_after := FCons (z_slot z) (z_val z) (z_kids z) (z_after z); z_ups := z_ups z |}
  end.

Definition up (z : zipper) : option zipper :=
  match z_ups z with
  | [] => None
  | fr :: ups' =>
      Some {| z_slot := fr_slot fr; z_val := fr_val fr; z_kids := z_level z;
              z_before := fr_before fr; z_after := fr_after fr; z_ups := ups' |}
  end.

(* down_last: the last child = first child of the reversed child list *)
Definition down_last (z : zipper) : option zipper :=
  match frev (z_kids z) with
  | FNil => None
  | FCons i v k r =>
      Some {| z_slot := i; z_val := v; z_kids := k; z_before := r; z_after := FNil;
              z_ups := {| fr_slot := z_slot z; fr_val := z_val z; fr_before := z_before z; fr_after := z_after z |}
                       :: z_ups z |}
  end.

(* ---- locating a slot ---- *)
(* search the sibling list [f] (whose already-visited part is [before], nearest first) under ancestors [ups] *)
Fixpoint locate_in (ups : list frame) (before : forest) (n : N) (f : forest) : option zipper :=
  match f with
  | FNil => None
  | FCons i v k r =>
      if N.eqb i n then
        Some {| z_slot := i; z_val := v; z_kids := k; z_before := before; z_after := r; z_ups := ups |}
      else
        match locate_in ({| fr_slot := i; fr_val := v; fr_before := before; fr_after := r |} :: ups) FNil n k with
        | Some z => Some z
        | None => locate_in ups (FCons i v k before) n r
        end
  end.

(* the top level of a store is a collection of unrelated trees: a root has no siblings *)
Fixpoint locate (n : N) (store : forest) : option zipper :=
  match store with
  | FNil => None
  | FCons i v k r =>
      match locate_in [] FNil n (FCons i v k FNil) with
      | Some z => Some z
      | None => locate n r
      end
  end.

(* the root of the tree containing the focus *)
Fixpoint top_of_ups (z : zipper) (ups : list frame) : N * value :=
  match ups with
  | [] => (z_slot z, z_val z)
  | [fr] => (fr_slot fr, fr_val fr)
  | _ :: ups' => top_of_ups z ups'
  end.

Definition slots_of (l : list zipper) : list N := map z_slot l.
Definition zpair (z : zipper) : node := (z_slot z, z_val z).
Definition frpair (fr : frame) : node := (fr_slot fr, fr_val fr).
Definition pairs_of (l : list zipper) : list node := map zpair l.
