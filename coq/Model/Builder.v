(* Builder.v — model of src/parse.rs: the token loop `_parse`, DocumentBuilder, NameIdBuilder, SpanInfo and the checks
   the entry points make after tokenising.  No proofs here.

   xmlparser (the tokenizer) is third-party code: it enters as the list of tokens it produced for the source, dumped by
   the harness ([ptoken]: xmlparser::Token with the strings and byte spans xot reads; a tokenizer error ends the list
   with [TkError]).  Arena slots are allocated in increasing order starting at [b_next] (a Xot whose arena has no free
   slots: `Arena::new_node` then pushes); the nodes are created in document order, so the slots of the parsed tree are
   its pre-order numbers. *)
From XotV Require Import Model.Base Model.Zipper Model.Interning Model.InternOps Model.Fullname Model.Entity.
Open Scope N_scope.

Record span := { sp_start : N; sp_end : N }.
Record sstr := { ss_text : str; ss_span : span }.          (* xmlparser::StrSpan: the text and where it is *)

Inductive ptoken :=
| TkDecl (version : sstr) (encoding : option sstr)
| TkPI (target : sstr) (content : option sstr)
| TkComment (text : sstr)
| TkDtd (sp : span)                                   (* DtdStart / DtdEnd / EmptyDtd / EntityDeclaration *)
| TkElementStart (prefix local : sstr)
| TkAttribute (prefix local value : sstr)
| TkEndOpen (sp : span)
| TkEndClose (prefix local : sstr) (sp : span)
| TkEndEmpty (sp : span)
| TkText (text : sstr)
| TkCdata (text : sstr)
| TkError (pos : N).                                  (* Err(e) from the tokenizer; pos = stream position before next() *)

Inductive perror :=
| PEUnclosedTag (s : span)
| PEInvalidCloseTag (p n : str) (s : span)
| PEUnclosedEntity (name : str) (pos : N)
| PEInvalidEntity (name : str) (s : span)
| PEUnknownPrefix (p : str) (s : span)
| PEDuplicateAttribute (name : str) (s : span)
| PEUnsupportedVersion (v : str) (s : span)
| PEDtdUnsupported (s : span)
| PENoElementAtTopLevel (pos : N)
| PEMultipleElementsAtTopLevel (s : span)
| PETextAtTopLevel (s : span)
| PEDuplicateId (v : str) (s : span)
| PEXmlParser (pos : N).

(* ParseError::span *)
Definition perror_span (e : perror) : span :=
  match e with
  | PEUnclosedTag s | PEInvalidCloseTag _ _ s | PEInvalidEntity _ s | PEUnknownPrefix _ s | PEDuplicateAttribute _ s
  | PEUnsupportedVersion _ s | PEDtdUnsupported s | PEMultipleElementsAtTopLevel s | PETextAtTopLevel s
  | PEDuplicateId _ s => s
  | PEUnclosedEntity _ p | PENoElementAtTopLevel p | PEXmlParser p => {| sp_start := p; sp_end := p |}
  end.

(* BPanic: an unwrap / expect of src/parse.rs itself;  BFull: a registration panicked because an interning table is full
   (the checked id conversion of C08, `registration_panics_only_when_full`) — both unwind in the crate *)
Inductive bres (A : Type) := BOk (a : A) | BErr (e : perror) | BPanic | BFull.
Arguments BOk {A} a.
Arguments BErr {A} e.
Arguments BPanic {A}.
Arguments BFull {A}.

Definition bbind {A B} (x : bres A) (f : A -> bres B) : bres B :=
  match x with BOk a => f a | BErr e => BErr e | BPanic => BPanic | BFull => BFull end.
Notation "'do' x <- a ; b" := (bbind a (fun x => b)) (at level 200, x pattern, a at level 100, b at level 200).

Definition of_res {A} (r : res A) : bres A := match r with ROk a => BOk a | RPanic => BFull end.

(* SpanInfoKey *)
Inductive skey :=
| KAttrName (n : N) (a : nameid) | KAttrValue (n : N) (a : nameid)
| KElStart (n : N) | KElEnd (n : N) | KText (n : N) | KComment (n : N) | KPiTarget (n : N) | KPiContent (n : N).

Definition skey_eqb (a b : skey) : bool :=
  match a, b with
  | KAttrName n x, KAttrName m y | KAttrValue n x, KAttrValue m y => N.eqb n m && N.eqb x y
  | KElStart n, KElStart m | KElEnd n, KElEnd m | KText n, KText m | KComment n, KComment m
  | KPiTarget n, KPiTarget m | KPiContent n, KPiContent m => N.eqb n m
  | _, _ => false
  end.

Definition spaninfo := list (skey * span).          (* HashMap<SpanInfoKey, Span>: the latest insertion first *)

Fixpoint span_get (m : spaninfo) (k : skey) : option span :=
  match m with
  | [] => None
  | (k', s) :: m' => if skey_eqb k' k then Some s else span_get m' k
  end.
Definition span_add (m : spaninfo) (k : skey) (s : span) : spaninfo := (k, s) :: m.

(* SpanInfo::extend_text_span *)
Definition extend_text_span (m : spaninfo) (n : N) (s : span) : spaninfo :=
  match span_get m (KText n) with
  | Some old => span_add m (KText n) {| sp_start := sp_start old; sp_end := sp_end s |}
  | None => span_add m (KText n) s
  end.

(* Span::from_prefix_name *)
Definition from_prefix_name (prefix name : sstr) : span :=
  match ss_text prefix with
  | [] => ss_span name
  | _ => {| sp_start := sp_start (ss_span prefix); sp_end := sp_end (ss_span name) |}
  end.

Record abuild := {
  ab_prefix : str; ab_name : str; ab_value : str;
  ab_name_span : span; ab_value_span : span; ab_prefix_span : span
}.

Record ebuild := {
  eb_prefix : str; eb_name : str; eb_ns : decls; eb_attrs : list abuild;
  eb_prefix_span : span; eb_span : span
}.

(* a node that is still open: its slot, its value and its arena children so far, LAST FIRST *)
Record onode := { on_slot : N; on_val : value; on_kids : forest }.

Record bstate := {
  b_tabs : tables;
  b_next : N;                       (* the next arena slot *)
  b_stack : list onode;             (* current_node_id first; the last entry is the document node *)
  b_nsstack : list decls;           (* NameIdBuilder.namespace_stack, top first *)
  b_eb : option ebuild;             (* element_builder *)
  b_ids : list (str * N);           (* id_nodes / seen_ids, latest first *)
  b_spans : spaninfo;
  b_open : list str;                (* open_prefixes: the prefix each open element was written with, innermost first *)
  b_dstart : option N               (* parsing a document: where its first token starts (0, or 3 behind a byte order mark) *)
}.

Definition s_xmlns : str := [120; 109; 108; 110; 115].
Definition s_xml : str := [120; 109; 108].
Definition s_id_local : str := [105; 100].
Definition s_version_10 : str := [49; 46; 48].

(* ---------- the XML declaration xmlparser does not recognise (`<?xml` followed by a tab or a line end): src/parse.rs
   declaration_version, over xmlparser's Stream.  The content is `VersionInfo EncodingDecl? SDDecl? S?`; everything in front
   of the version value is ASCII, so byte offsets and character offsets agree there. ---------- *)
Definition s_version : str := [118; 101; 114; 115; 105; 111; 110].
Definition s_encoding : str := [101; 110; 99; 111; 100; 105; 110; 103].
Definition s_standalone : str := [115; 116; 97; 110; 100; 97; 108; 111; 110; 101].
Definition s_yes : str := [121; 101; 115].
Definition s_no : str := [110; 111].

Definition lower_ascii (c : N) : N := if (65 <=? c) && (c <=? 90) then c + 32 else c.
(* target.eq_ignore_ascii_case("xml") *)
Definition reserved_target (t : str) : bool := str_eqb (map lower_ascii t) s_xml.

Definition is_xml_space (c : N) : bool := (c =? 32) || (c =? 9) || (c =? 10) || (c =? 13).
Fixpoint skip_xml_spaces (s : str) : str :=
  match s with c :: r => if is_xml_space c then skip_xml_spaces r else s | [] => [] end.
Fixpoint strip_str_prefix (p s : str) : option str :=
  match p, s with
  | [], _ => Some s
  | a :: p', b :: s' => if a =? b then strip_str_prefix p' s' else None
  | _ :: _, [] => None
  end.
Fixpoint take_until (q : N) (s : str) : str * str :=
  match s with
  | [] => ([], [])
  | c :: r => if c =? q then ([], s) else let '(v, t) := take_until q r in (c :: v, t)
  end.
Definition slen (s : str) : N := N.of_nat (length s).

(* consume_eq, consume_quote, the value up to the same quote, the quote: the value, what follows it, and how many characters
   stand in front of the value *)
Definition eq_quoted (s : str) : option (str * str * N) :=
  match skip_xml_spaces s with
  | 61 :: s2 =>
      match skip_xml_spaces s2 with
      | q :: s4 =>
          if (q =? 34) || (q =? 39) then
            let '(v, r) := take_until q s4 in
            match r with
            | _ :: r' => Some (v, r', slen s - slen s4)
            | [] => None
            end
          else None
      | [] => None
      end
  | _ => None
  end.

Definition is_digit (c : N) : bool := (48 <=? c) && (c <=? 57).
Definition is_alpha (c : N) : bool := ((65 <=? c) && (c <=? 90)) || ((97 <=? c) && (c <=? 122)).
Definition valid_version (v : str) : bool :=
  match strip_str_prefix [49; 46] v with Some (d :: ds) => forallb is_digit (d :: ds) | _ => false end.
Definition valid_encname (v : str) : bool :=
  match v with
  | c :: _ => is_alpha c && forallb (fun c => is_alpha c || is_digit c || (c =? 46) || (c =? 95) || (c =? 45)) v
  | [] => false
  end.
Definition valid_sd (v : str) : bool := str_eqb v s_yes || str_eqb v s_no.
Definition after_value (r : str) : bool := match r with [] => true | c :: _ => is_xml_space c end.

Definition opt_pseudo_attr (name : str) (valid : str -> bool) (r : str) : option str :=
  match strip_str_prefix name r with
  | None => Some r
  | Some r' =>
      match eq_quoted r' with
      | Some (v, r'', _) => if valid v && after_value r'' then Some (skip_xml_spaces r'') else None
      | None => None
      end
  end.

Definition declaration_version (c : sstr) : option sstr :=
  match strip_str_prefix s_version (ss_text c) with
  | None => None
  | Some r0 =>
      match eq_quoted r0 with
      | None => None
      | Some (v, r1, off) =>
          if valid_version v && after_value r1 then
            let vstart := sp_start (ss_span c) + 7 + off in
            match opt_pseudo_attr s_encoding valid_encname (skip_xml_spaces r1) with
            | None => None
            | Some r3 =>
                match opt_pseudo_attr s_standalone valid_sd r3 with
                | Some [] => Some {| ss_text := v; ss_span := {| sp_start := vstart; sp_end := vstart + slen v |} |}
                | _ => None
                end
            end
          else None
      end
  end.

Definition qname_str (prefix name : str) : str :=
  match prefix with [] => name | _ => prefix ++ [58] ++ name end.

Definition of_entity {A} (r : sum perr A) : bres A :=
  match r with
  | inr a => BOk a
  | inl (UnclosedEntity name pos) => BErr (PEUnclosedEntity name pos)
  | inl (InvalidEntity name s e) => BErr (PEInvalidEntity name {| sp_start := s; sp_end := e |})
  end.

Definition parse_attr_value (v : sstr) : bres str := of_entity (parse_attribute (sp_start (ss_span v)) (ss_text v)).
Definition parse_text_value (v : sstr) : bres str := of_entity (parse_text (sp_start (ss_span v)) (ss_text v)).

Section WithBuiltins.
  Variable bi : builtins.
  Notation ep := (b_empty_prefix bi).
  Notation nn := (b_no_namespace bi).

  Definition with_tabs (st : bstate) (t : tables) : bstate :=
    {| b_tabs := t; b_next := b_next st; b_stack := b_stack st; b_nsstack := b_nsstack st; b_eb := b_eb st;
       b_ids := b_ids st; b_spans := b_spans st; b_open := b_open st; b_dstart := b_dstart st |}.
  Definition with_spans (st : bstate) (m : spaninfo) : bstate :=
    {| b_tabs := b_tabs st; b_next := b_next st; b_stack := b_stack st; b_nsstack := b_nsstack st; b_eb := b_eb st;
       b_ids := b_ids st; b_spans := m; b_open := b_open st; b_dstart := b_dstart st |}.
  Definition with_eb (st : bstate) (e : option ebuild) : bstate :=
    {| b_tabs := b_tabs st; b_next := b_next st; b_stack := b_stack st; b_nsstack := b_nsstack st; b_eb := e;
       b_ids := b_ids st; b_spans := b_spans st; b_open := b_open st; b_dstart := b_dstart st |}.

  Definition with_dstart (st : bstate) (d : option N) : bstate :=
    {| b_tabs := b_tabs st; b_next := b_next st; b_stack := b_stack st; b_nsstack := b_nsstack st; b_eb := b_eb st;
       b_ids := b_ids st; b_spans := b_spans st; b_open := b_open st; b_dstart := d |}.

  (* DocumentBuilder::new *)
  Definition builder_new (t : tables) (next : N) : bstate :=
    {| b_tabs := t; b_next := next + 1;
       b_stack := [ {| on_slot := next; on_val := VDocument; on_kids := FNil |} ];
       b_nsstack := [ [(ep, nn)]; [(b_xml_prefix bi, b_xml_namespace bi)] ];
       b_eb := None; b_ids := []; b_spans := []; b_open := []; b_dstart := None |}.

  (* DocumentBuilder::add: a new node appended to the current node; returns its slot *)
  Definition add_node (st : bstate) (v : value) : bres (bstate * N) :=
    match b_stack st with
    | [] => BPanic
    | cur :: rest =>
        let n := b_next st in
        BOk ({| b_tabs := b_tabs st; b_next := n + 1;
                b_stack := {| on_slot := on_slot cur; on_val := on_val cur; on_kids := FCons n v FNil (on_kids cur) |} :: rest;
                b_nsstack := b_nsstack st; b_eb := b_eb st; b_ids := b_ids st; b_spans := b_spans st; b_open := b_open st; b_dstart := b_dstart st |}, n)
    end.

  (* NameIdBuilder::name_id_with_prefix_id: innermost entry first, within an entry the last declaration first *)
  Fixpoint lookup_rev (p : prefixid) (d : decls) (found : option nsid) : option nsid :=
    match d with
    | [] => found
    | (q, ns) :: d' => lookup_rev p d' (if N.eqb q p then Some ns else found)
    end.

  Fixpoint lookup_stack (p : prefixid) (s : list decls) : option nsid :=
    match s with
    | [] => None
    | d :: s' => match lookup_rev p d None with Some ns => Some ns | None => lookup_stack p s' end
    end.

  (* NameIdBuilder::element_name_id *)
  Definition element_name_id (st : bstate) (prefix name : str) (prefix_span : span) : bres (bstate * nameid) :=
    do (pid, t1) <- of_res (x_add_prefix (b_tabs st) prefix);
    match lookup_stack pid (b_nsstack st) with
    | None => BErr (PEUnknownPrefix prefix prefix_span)
    | Some ns => do (nid, t2) <- of_res (x_add_name_ns t1 name ns); BOk (with_tabs st t2, nid)
    end.

  (* NameIdBuilder::attribute_name_id *)
  Definition attribute_name_id (st : bstate) (prefix name : str) (prefix_span : span) : bres (bstate * nameid) :=
    do (pid, t1) <- of_res (x_add_prefix (b_tabs st) prefix);
    if N.eqb pid ep then
      do (nid, t2) <- of_res (x_add_name_ns t1 name nn); BOk (with_tabs st t2, nid)
    else
      match lookup_stack pid (b_nsstack st) with
      | None => BErr (PEUnknownPrefix prefix prefix_span)
      | Some ns => do (nid, t2) <- of_res (x_add_name_ns t1 name ns); BOk (with_tabs st t2, nid)
      end.

  (* DocumentBuilder::prefix *)
  Definition builder_prefix (st : bstate) (prefix uri : str) (sp : span) : bres bstate :=
    do (pid, t1) <- of_res (x_add_prefix (b_tabs st) prefix);
    do (nsid, t2) <- of_res (x_add_namespace t1 uri);
    match b_eb st with
    | None => BPanic
    | Some eb =>
        if has_prefix pid (eb_ns eb) then
          BErr (PEDuplicateAttribute (match prefix with [] => s_xmlns | _ => s_xmlns ++ [58] ++ prefix end) sp)
        else
          BOk (with_eb (with_tabs st t2)
                 (Some {| eb_prefix := eb_prefix eb; eb_name := eb_name eb; eb_ns := eb_ns eb ++ [(pid, nsid)];
                          eb_attrs := eb_attrs eb; eb_prefix_span := eb_prefix_span eb; eb_span := eb_span eb |}))
    end.

  (* DocumentBuilder::attribute *)
  Definition builder_attribute (st : bstate) (prefix local value : sstr) : bres bstate :=
    match b_eb st with
    | None => BPanic
    | Some eb =>
        if existsb (fun a => str_eqb (ab_prefix a) (ss_text prefix) && str_eqb (ab_name a) (ss_text local)) (eb_attrs eb) then
          BErr (PEDuplicateAttribute (qname_str (ss_text prefix) (ss_text local)) (from_prefix_name prefix local))
        else
          do v <- parse_attr_value value;
          let v' := if str_eqb (ss_text local) s_id_local && str_eqb (ss_text prefix) s_xml then normalize_xml_id v else v in
          BOk (with_eb st
                 (Some {| eb_prefix := eb_prefix eb; eb_name := eb_name eb; eb_ns := eb_ns eb;
                          eb_attrs := eb_attrs eb ++ [ {| ab_prefix := ss_text prefix; ab_name := ss_text local; ab_value := v';
                                                         ab_name_span := from_prefix_name prefix local;
                                                         ab_value_span := ss_span value;
                                                         ab_prefix_span := ss_span prefix |} ];
                          eb_prefix_span := eb_prefix_span eb; eb_span := eb_span eb |}))
    end.

  (* the attribute loop of open_element; [done] = attribute_spans so far *)
  Fixpoint open_attributes (st : bstate) (node : N) (l : list abuild) (done : list (nameid * span * span))
    : bres (bstate * list (nameid * span * span)) :=
    match l with
    | [] => BOk (st, done)
    | a :: l' =>
        do (st1, nid) <- attribute_name_id st (ab_prefix a) (ab_name a) (ab_prefix_span a);
        if existsb (fun x => N.eqb (fst (fst x)) nid) done then
          BErr (PEDuplicateAttribute (qname_str (ab_prefix a) (ab_name a)) (ab_name_span a))
        else
          do st2 <- (if N.eqb nid (b_xml_id bi) then
                       if existsb (fun x => str_eqb (fst x) (ab_value a)) (b_ids st1)
                       then BErr (PEDuplicateId (ab_value a) (ab_value_span a))
                       else BOk {| b_tabs := b_tabs st1; b_next := b_next st1; b_stack := b_stack st1; b_nsstack := b_nsstack st1;
                                   b_eb := b_eb st1; b_ids := (ab_value a, node) :: b_ids st1; b_spans := b_spans st1; b_open := b_open st1; b_dstart := b_dstart st1 |}
                     else BOk st1);
          do (st3, _) <- add_node st2 (VAttribute nid (ab_value a));
          open_attributes st3 node l' (done ++ [(nid, ab_name_span a, ab_value_span a)])
    end.

  Fixpoint add_namespace_nodes (st : bstate) (d : decls) : bres bstate :=
    match d with
    | [] => BOk st
    | (p, ns) :: d' => do (st1, _) <- add_node st (VNamespace p ns); add_namespace_nodes st1 d'
    end.

  (* DocumentBuilder::open_element followed by the span bookkeeping of `_parse` *)
  Definition open_element (st : bstate) : bres (bstate * N) :=
    match b_eb st with
    | None => BPanic
    | Some eb =>
        let st0 := {| b_tabs := b_tabs st; b_next := b_next st; b_stack := b_stack st;
                      b_nsstack := eb_ns eb :: b_nsstack st; b_eb := None; b_ids := b_ids st; b_spans := b_spans st; b_open := b_open st; b_dstart := b_dstart st |} in
        do (st1, nid) <- element_name_id st0 (eb_prefix eb) (eb_name eb) (eb_prefix_span eb);
        (* add: the element becomes the current node *)
        let node := b_next st1 in
        let st2 := {| b_tabs := b_tabs st1; b_next := node + 1;
                      b_stack := {| on_slot := node; on_val := VElement nid; on_kids := FNil |} :: b_stack st1;
                      b_nsstack := b_nsstack st1; b_eb := None; b_ids := b_ids st1; b_spans := b_spans st1; b_open := eb_prefix eb :: b_open st1; b_dstart := b_dstart st1 |} in
        do st3 <- add_namespace_nodes st2 (eb_ns eb);
        do (st4, aspans) <- open_attributes st3 node (eb_attrs eb) [];
        let m1 := span_add (b_spans st4) (KElStart node) (eb_span eb) in
        let m2 := fold_left (fun m x => let '(a, ns, vs) := x in span_add (span_add m (KAttrName node a) ns) (KAttrValue node a) vs)
                            aspans m1 in
        BOk (with_spans st4 m2, node)
    end.

  (* the current node is closed: it becomes the last child of its parent *)
  Definition pop_node (st : bstate) (pop_ns : bool) : bres (bstate * N) :=
    match b_stack st with
    | cur :: par :: rest =>
        BOk ({| b_tabs := b_tabs st; b_next := b_next st;
                b_stack := {| on_slot := on_slot par; on_val := on_val par;
                              on_kids := FCons (on_slot cur) (on_val cur) (Zipper.frev (on_kids cur)) (on_kids par) |} :: rest;
                b_nsstack := if pop_ns then tl (b_nsstack st) else b_nsstack st;
                b_eb := b_eb st; b_ids := b_ids st; b_spans := b_spans st; b_open := if pop_ns then tl (b_open st) else b_open st; b_dstart := b_dstart st |}, on_slot cur)
    | _ => BPanic                                (* .expect("Cannot close document node") *)
    end.

  Definition current_is_element (st : bstate) : option nameid :=
    match b_stack st with
    | cur :: _ => match on_val cur with VElement n => Some n | _ => None end
    | [] => None
    end.

  (* DocumentBuilder::close_element_immediate *)
  Definition close_element_immediate (st : bstate) : bres (bstate * N) :=
    pop_node st (match current_is_element st with Some _ => true | None => false end).

  (* DocumentBuilder::close_element *)
  Definition close_element (st : bstate) (prefix local : sstr) : bres (bstate * N) :=
    do (st1, nid) <- element_name_id st (ss_text prefix) (ss_text local) (ss_span prefix);
    match current_is_element st1 with
    | Some cur_name =>
        (* the end tag has to repeat the name as the start tag wrote it: same expanded name AND same prefix *)
        if N.eqb cur_name nid && (match b_open st1 with p :: _ => str_eqb p (ss_text prefix) | [] => false end) then pop_node st1 true
        else BErr (PEInvalidCloseTag (ss_text prefix) (ss_text local) (from_prefix_name prefix local))
    | None => BErr (PEInvalidCloseTag (ss_text prefix) (ss_text local) (from_prefix_name prefix local))
    end.

  (* DocumentBuilder::consolidate_text / text / cdata_text: returns the text node *)
  Definition add_text (st : bstate) (content : str) : bres (bstate * N) :=
    match b_stack st with
    | cur :: rest =>
        match on_kids cur with
        | FCons i (VText old) k r =>
            BOk ({| b_tabs := b_tabs st; b_next := b_next st;
                    b_stack := {| on_slot := on_slot cur; on_val := on_val cur; on_kids := FCons i (VText (old ++ content)) k r |} :: rest;
                    b_nsstack := b_nsstack st; b_eb := b_eb st; b_ids := b_ids st; b_spans := b_spans st; b_open := b_open st; b_dstart := b_dstart st |}, i)
        | _ => add_node st (VText content)
        end
    | [] => BPanic
    end.

  (* a qualified name written with a colon in front (`:a`): the tokenizer hands it over as an empty prefix and the local part.
     The empty prefix of a name WITHOUT a colon has the span 0-0; the one of `:a` is the empty span where the colon stands, one
     byte in front of the local part (and never at 0: a `<` or white space precedes it). *)
  Definition leading_colon (prefix local : sstr) : bool :=
    str_eqb (ss_text prefix) [] && negb (sp_start (ss_span prefix) =? 0)
    && (sp_start (ss_span prefix) + 1 =? sp_start (ss_span local)).

  (* one token of the loop in `_parse` *)
  Definition bstep (st : bstate) (t : ptoken) : bres bstate :=
    match t with
    | TkAttribute prefix local value =>
        if leading_colon prefix local then BErr (PEXmlParser (sp_start (ss_span local) - 1)) else
        if str_eqb (ss_text prefix) s_xmlns then
          do uri <- parse_attr_value value;
          (* Namespaces in XML 1.0, "No Prefix Undeclaring": xmlns:p="" is refused *)
          match uri with
          | [] => BErr (PEXmlParser (sp_start (ss_span prefix)))
          | _ => builder_prefix st (ss_text local) uri (from_prefix_name prefix local)
          end
        else if str_eqb (ss_text prefix) [] && str_eqb (ss_text local) s_xmlns then
          do uri <- parse_attr_value value;
          builder_prefix st [] uri (from_prefix_name prefix local)
        else builder_attribute st prefix local value
    | TkText text =>
        do content <- parse_text_value text;
        do (st1, n) <- add_text st content;
        BOk (with_spans st1 (extend_text_span (b_spans st1) n (ss_span text)))
    | TkCdata text =>
        (* an empty CDATA section contributes nothing *)
        match ss_text text with [] => BOk st | _ =>
        do (st1, n) <- add_text st (normalize_line_ends (ss_text text));
        BOk (with_spans st1 (extend_text_span (b_spans st1) n (ss_span text)))
        end
    | TkElementStart prefix local =>
        if leading_colon prefix local then BErr (PEXmlParser (sp_start (ss_span local) - 1)) else
        BOk (with_eb st (Some {| eb_prefix := ss_text prefix; eb_name := ss_text local; eb_ns := []; eb_attrs := [];
                                 eb_prefix_span := ss_span prefix; eb_span := from_prefix_name prefix local |}))
    | TkEndOpen _ =>
        do (st1, _) <- open_element st; BOk st1
    | TkEndClose prefix local sp =>
        if leading_colon prefix local then BErr (PEXmlParser (sp_start (ss_span local) - 1)) else
        do (st1, n) <- close_element st prefix local;
        BOk (with_spans st1 (span_add (b_spans st1) (KElEnd n) sp))
    | TkEndEmpty sp =>
        do (st1, _) <- open_element st;
        do (st2, n) <- close_element_immediate st1;
        BOk (with_spans st2 (span_add (b_spans st2) (KElEnd n) sp))
    | TkComment text =>
        do (st1, n) <- add_node st (VComment (normalize_line_ends (ss_text text)));
        BOk (with_spans st1 (span_add (b_spans st1) (KComment n) (ss_span text)))
    | TkPI target content =>
        (* a processing instruction token with the reserved target: the XML declaration, when it is spelled xml, stands at
           the very start of a document (the token starts two bytes before its target) and reads as one; an error otherwise *)
        if reserved_target (ss_text target) then
          let position := sp_start (ss_span target) - 2 in
          match (if str_eqb (ss_text target) s_xml then
                   match b_dstart st, content with
                   | Some d, Some c => if position =? d then declaration_version c else None
                   | _, _ => None
                   end
                 else None) with
          | Some v => if str_eqb (ss_text v) s_version_10 then BOk st
                      else BErr (PEUnsupportedVersion (ss_text v) (ss_span v))
          | None => BErr (PEXmlParser position)
          end
        else
        (* Namespaces in XML 1.0: no colon in a processing instruction target *)
        if existsb (N.eqb 58) (ss_text target) then BErr (PEXmlParser (sp_start (ss_span target) - 2))
        else
        (* PI ::= '<?' PITarget (S ...)? '?>': what follows the target is separated from it by white space (the tokenizer does
           not insist) *)
        if (match content with Some c => sp_start (ss_span c) =? sp_end (ss_span target) | None => false end) then
          BErr (PEXmlParser (sp_end (ss_span target)))
        else
        do (tid, t1) <- of_res (x_add_name_ns (b_tabs st) (ss_text target) nn);
        do (st1, n) <- add_node (with_tabs st t1) (VPI tid (match content with Some c => Some (normalize_line_ends (ss_text c)) | None => None end));
        let m1 := span_add (b_spans st1) (KPiTarget n) (ss_span target) in
        BOk (with_spans st1 (match content with Some c => span_add m1 (KPiContent n) (ss_span c) | None => m1 end))
    | TkDecl version encoding =>
        if str_eqb (ss_text version) s_version_10 then
          (* EncName ::= [A-Za-z] ([A-Za-z0-9._] | '-')*: the tokenizer takes any quoted value *)
          match encoding with
          | Some e => if valid_encname (ss_text e) then BOk st else BErr (PEXmlParser (sp_start (ss_span e)))
          | None => BOk st
          end
        else BErr (PEUnsupportedVersion (ss_text version) (ss_span version))
    | TkDtd sp => BErr (PEDtdUnsupported sp)
    | TkError pos => BErr (PEXmlParser pos)
    end.

  Fixpoint brun (st : bstate) (ts : list ptoken) : bres bstate :=
    match ts with
    | [] => BOk st
    | t :: ts' => do st1 <- bstep st t; brun st1 ts'
    end.

  (* the end of the stream: text that ends inside a start tag (the tokenizer of a fragment ends silently there) *)
  Definition bfinish (st : bstate) : bres bstate :=
    match b_eb st with
    | Some eb => BErr (PEUnclosedTag (eb_span eb))
    | None => BOk st
    end.

  (* the shape xmlparser gives its token stream: attributes and the end of a start tag occur only inside a start tag, and
     nothing else does (a tokenizer error may come anywhere and ends the stream) *)
  Fixpoint stream_shape (intag : bool) (ts : list ptoken) : bool :=
    match ts with
    | [] => true
    | t :: ts' =>
        match t with
        | TkError _ => true
        | TkElementStart _ _ => negb intag && stream_shape true ts'
        | TkAttribute _ _ _ => intag && stream_shape true ts'
        | TkEndOpen _ | TkEndEmpty _ => intag && stream_shape false ts'
        | _ => negb intag && stream_shape false ts'
        end
    end.

  (* the parsed tree, its span information and its xml:id index *)
  Record parsed := {
    pr_tree : forest;                 (* one document node *)
    pr_doc : N;
    pr_spans : spaninfo;
    pr_ids : list (str * N);
    pr_tabs : tables;
    pr_next : N
  }.

  Definition finish (st : bstate) (doc : onode) : parsed :=
    {| pr_tree := FCons (on_slot doc) VDocument (Zipper.frev (on_kids doc)) FNil; pr_doc := on_slot doc;
       pr_spans := b_spans st; pr_ids := b_ids st; pr_tabs := b_tabs st; pr_next := b_next st |}.

  Definition unclosed (st : bstate) : bres parsed :=
    match b_stack st with
    | cur :: _ => match span_get (b_spans st) (KElStart (on_slot cur)) with
                  | Some s => BErr (PEUnclosedTag s)
                  | None => BPanic                                   (* .unwrap() *)
                  end
    | [] => BPanic
    end.

  (* the top-level check of parse_with_span_info over the document's children in order *)
  Fixpoint top_level_check (st : bstate) (kids : forest) (elements : list N) : bres (list N) :=
    match kids with
    | FNil => BOk elements
    | FCons i v _ r =>
        match v with
        | VElement _ => top_level_check st r (elements ++ [i])
        | VText _ => match span_get (b_spans st) (KText i) with
                     | Some s => BErr (PETextAtTopLevel s)
                     | None => BPanic
                     end
        | _ => top_level_check st r elements
        end
    end.

  (* Xot::parse_with_span_info; [srclen] = xml.len() in bytes, [bom]: the text starts with a byte order mark (which the
     tokenizer skips, so that the first token starts at 3) *)
  Definition parse_document_at (bom : bool) (t : tables) (next : N) (srclen : N) (ts : list ptoken) : bres parsed :=
    do st0 <- brun (with_dstart (builder_new t next) (Some (if bom then 3 else 0))) ts;
    do st <- bfinish st0;
    match b_stack st with
    | [doc] =>
        do els <- top_level_check st (Zipper.frev (on_kids doc)) [];
        match els with
        | [] => BErr (PENoElementAtTopLevel srclen)
        | [_] => BOk (finish st doc)
        | _ :: second :: _ =>
            match span_get (b_spans st) (KElStart second) with
            | Some s => BErr (PEMultipleElementsAtTopLevel s)
            | None => BPanic
            end
        end
    | _ => unclosed st
    end.

  Definition parse_document := parse_document_at false.

  (* Xot::parse_fragment_with_span_info *)
  Definition parse_fragment (t : tables) (next : N) (ts : list ptoken) : bres parsed :=
    do st0 <- brun (builder_new t next) ts;
    do st <- bfinish st0;
    match b_stack st with
    | [doc] => BOk (finish st doc)
    | _ => unclosed st
    end.

  (* Xot::xml_id_node right after the parse *)
  Definition xml_id_lookup (p : parsed) (v : str) : option N :=
    match List.find (fun x => str_eqb (fst x) v) (pr_ids p) with Some (_, n) => Some n | None => None end.
End WithBuiltins.
