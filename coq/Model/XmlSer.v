(* XmlSer.v — model of src/output/serializer.rs (gen_outputs), src/output/xml_serializer.rs (render_output, serialize,
   serialize_pretty), src/output/pretty.rs and the token entry points of src/serialize.rs.  No proofs here. *)
From XotV Require Import Model.Base Model.Zipper Model.Access Model.Fullname Model.Scope Model.Entity.
Open Scope N_scope.

Inductive output :=
| OStartTagOpen (name : nameid)
| OStartTagClose
| OEndTag (name : nameid)
| OPrefix (p : prefixid) (ns : nsid)
| OAttribute (name : nameid) (v : str)
| OText (s : str)
| OComment (s : str)
| OPI (target : nameid) (data : option str).

Definition attr_pairs (z : zipper) : list (nameid * str) :=
  opt_map (fun c => match z_val c with VAttribute n v => Some (n, v) | _ => None end) (attribute_nodes z).

Record names := {
  n_empty_prefix : prefixid; n_xml_prefix : prefixid; n_no_ns : nsid; n_xml_ns : nsid;
  n_ns_of_name : nameid -> nsid;            (* namespace_for_name *)
  n_local : nameid -> str;                  (* local_name_str *)
  n_prefix_str : prefixid -> str;
  n_ns_str : nsid -> str;
  n_xml_space : nameid                      (* xml:space *)
}.

Section Ser.
  Variable nm : names.
  Notation ep := (n_empty_prefix nm).
  Notation nn := (n_no_ns nm).

  Definition in_scope (z : zipper) : decls :=
    namespaces_in_scope ep (n_xml_prefix nm) nn (n_xml_ns nm) z.

  (* gen_edge_start(xot, top_node, node) *)
  Definition edge_start_outputs (top : N) (z : zipper) : list output :=
    match z_val z with
    | VElement name =>
        let own := declarations z in
        let no_namespace := N.eqb (n_ns_of_name nm name) nn in
        let extra :=
          if N.eqb (z_slot z) top then
            opt_map (fun d => if no_namespace && N.eqb (fst d) ep then None
                              else if has_prefix (fst d) own then None else Some (OPrefix (fst d) (snd d)))
                    (in_scope z)
          else [] in
        OStartTagOpen name :: extra ++ map (fun d => OPrefix (fst d) (snd d)) own
          ++ map (fun a => OAttribute (fst a) (snd a)) (attr_pairs z) ++ [OStartTagClose]
    | VText s => [OText s]
    | VComment s => [OComment s]
    | VPI t d => [OPI t d]
    | _ => []
    end.

  Definition edge_end_outputs (z : zipper) : list output :=
    match z_val z with VElement name => [OEndTag name] | _ => [] end.

  (* gen_outputs(xot, node): every event tagged with its node *)
  Definition gen_outputs (z : zipper) : list (zipper * output) :=
    flat_map (fun e => match e with
                       | EStart c => map (fun o => (c, o)) (edge_start_outputs (z_slot z) c)
                       | EEnd c => map (fun o => (c, o)) (edge_end_outputs c)
                       end) (traverse z).

  (* ---------- XmlSerializer ---------- *)
  Inductive serr := EMissingPrefix | ENamespaceInPI | ENoParentForText.

  Record token := { t_space : bool; t_text : str }.

  Record sstate := { s_stack : fstack; s_undeclared : list N }.

  Record params := { p_cdata : list nameid; p_unescaped_gt : bool }.

  Definition has_default_namespace (s : fstack) : bool :=
    existsb (fun d => N.eqb (fst d) ep && negb (N.eqb (snd d) nn)) (fs_top s).

  (* XmlSerializer::new *)
  Definition ser_new (z : zipper) : sstate :=
    let no_namespace := match z_val z with VElement name => N.eqb (n_ns_of_name nm name) nn | _ => false end in
    {| s_stack := fs_new (filter (fun d => negb (no_namespace && N.eqb (fst d) ep)) (in_scope z));
       s_undeclared := [] |}.

  Definition qname (p : pfx) (name : nameid) : option str :=
    match p with
    | PNone => Some (n_local nm name)
    | PSome q => Some (n_prefix_str nm q ++ [58] ++ n_local nm name)
    | PMissing => None
    end.

  Definition element_fullname (s : fstack) (name : nameid) : option str :=
    qname (element_prefix ep nn s (n_ns_of_name nm name)) name.
  Definition attribute_fullname (s : fstack) (name : nameid) : option str :=
    qname (attribute_prefix ep nn s (n_ns_of_name nm name)) name.

  Definition tok (space : bool) (t : str) : token := {| t_space := space; t_text := t |}.
  Definition s_xmlns : str := [120; 109; 108; 110; 115].                 (* xmlns *)
  Definition has_children (z : zipper) : bool := match first_child z with Some _ => true | None => false end.

  (* render_output(node, output) *)
  Definition render (prm : params) (st : sstate) (z : zipper) (o : output) : sum serr (sstate * token) :=
    match o with
    | OStartTagOpen name =>
        let own := declarations z in
        (* a no-namespace element that itself declares a (non-empty) default namespace cannot be written *)
        if N.eqb (n_ns_of_name nm name) nn && existsb (fun d => N.eqb (fst d) ep && negb (N.eqb (snd d) nn)) own
        then inl EMissingPrefix else
        let undeclare := N.eqb (n_ns_of_name nm name) nn && negb (has_prefix ep own) && has_default_namespace (s_stack st) in
        let decls' := if undeclare then own ++ [(ep, nn)] else own in
        let stack' := fs_push (s_stack st) decls' in
        let und' := if undeclare then z_slot z :: s_undeclared st else s_undeclared st in
        match element_fullname stack' name with
        | Some fn =>
            inr ({| s_stack := stack'; s_undeclared := und' |},
                 tok false ([60] ++ fn ++ (if undeclare then [32] ++ s_xmlns ++ [61; 34; 34] else [])))
        | None =>
            (* the default namespace the name relies on may have been undeclared on an ancestor: declare it again *)
            let ns := n_ns_of_name nm name in
            let tree_default := namespace_for_prefix (n_xml_prefix nm) nn (n_xml_ns nm) z ep in
            if negb (has_prefix ep own) && (match tree_default with Some d => N.eqb d ns | None => false end) then
              let stack2 := fs_push (fs_pop stack' (match decls' with [] => false | _ => true end)) (decls' ++ [(ep, ns)]) in
              match element_fullname stack2 name with
              | None => inl EMissingPrefix
              | Some fn =>
                  inr ({| s_stack := stack2; s_undeclared := z_slot z :: und' |},
                       tok false ([60] ++ fn ++ [32] ++ s_xmlns ++ [61; 34] ++ serialize_attribute (n_ns_str nm ns) ++ [34]))
              end
            else inl EMissingPrefix
        end
    | OStartTagClose => inr (st, tok false (if has_children z then [62] else [47; 62]))
    | OEndTag name =>
        let r := if has_children z then
                   match element_fullname (s_stack st) name with
                   | None => inl EMissingPrefix
                   | Some fn => inr (tok false ([60; 47] ++ fn ++ [62]))
                   end
                 else inr (tok false []) in
        match r with
        | inl e => inl e
        | inr t =>
            let undeclared := match s_undeclared st with u :: _ => N.eqb u (z_slot z) | [] => false end in
            let und' := if undeclared then tl (s_undeclared st) else s_undeclared st in
            let has_decls := match declarations z with [] => false | _ => true end in
            inr ({| s_stack := fs_pop (s_stack st) (undeclared || has_decls); s_undeclared := und' |}, t)
        end
    | OPrefix p ns =>
        (* the implicit binding of the xml prefix is not written; a declaration of it on the element itself is *)
        if N.eqb p (n_xml_prefix nm) && N.eqb ns (n_xml_ns nm) && negb (existsb (fun d => N.eqb (fst d) p) (declarations z))
        then inr (st, tok false [])
        (* a prefix bound to "no namespace" has no spelling in XML and is left out *)
        else if negb (N.eqb p ep) && N.eqb ns nn then inr (st, tok false [])
        else
          let uri := serialize_attribute (n_ns_str nm ns) in
          if N.eqb p ep then inr (st, tok true (s_xmlns ++ [61; 34] ++ uri ++ [34]))
          else inr (st, tok true (s_xmlns ++ [58] ++ n_prefix_str nm p ++ [61; 34] ++ uri ++ [34]))
    | OAttribute name v =>
        match attribute_fullname (s_stack st) name with
        | None => inl EMissingPrefix
        | Some fn => inr (st, tok true (fn ++ [61; 34] ++ serialize_attribute v ++ [34]))
        end
    | OText s =>
        let is_cdata := match parent z with
                        | Some p => match z_val p with VElement pn => existsb (N.eqb pn) (p_cdata prm) | _ => false end
                        | None => false
                        end in
        inr (st, tok false (if is_cdata then serialize_cdata s else serialize_text (p_unescaped_gt prm) s))
    | OComment s => inr (st, tok false ([60; 33; 45; 45] ++ s ++ [45; 45; 62]))
    | OPI target data =>
        if negb (N.eqb (n_ns_of_name nm target) nn) then inl ENamespaceInPI
        else match data with
             | Some d => inr (st, tok false ([60; 63] ++ n_local nm target ++ [32] ++ d ++ [63; 62]))
             | None => inr (st, tok false ([60; 63] ++ n_local nm target ++ [63; 62]))
             end
    end.

  (* the token stream: Err at the first event that cannot be rendered *)
  Fixpoint render_all (prm : params) (st : sstate) (evs : list (zipper * output)) : sum serr (list (zipper * output * token)) :=
    match evs with
    | [] => inr []
    | (z, o) :: evs' =>
        match render prm st z o with
        | inl e => inl e
        | inr (st', t) => match render_all prm st' evs' with
                          | inl e => inl e
                          | inr l => inr ((z, o, t) :: l)
                          end
        end
    end.

  Definition tokens (prm : params) (z : zipper) : sum serr (list (zipper * output * token)) :=
    render_all prm (ser_new z) (gen_outputs z).

  Definition token_text (t : token) : str := (if t_space t then [32] else []) ++ t_text t.

  (* serialize: the concatenation of the rendered events *)
  Definition serialize (prm : params) (z : zipper) : sum serr str :=
    match tokens prm z with
    | inl e => inl e
    | inr l => inr (concat (map (fun x => token_text (snd x)) l))
    end.

  (* XmlSerializer::serialize: every event is rendered and written to the sink at once *)
  Fixpoint serialize_go (prm : params) (st : sstate) (evs : list (zipper * output)) (buf : str) : sum serr str :=
    match evs with
    | [] => inr buf
    | (z, o) :: evs' =>
        match render prm st z o with
        | inl e => inl e
        | inr (st', t) => serialize_go prm st' evs' (buf ++ (if t_space t then [32] else []) ++ t_text t)
        end
    end.

  Definition serialize_write (prm : params) (z : zipper) : sum serr str :=
    serialize_go prm (ser_new z) (gen_outputs z) [].

  (* ---------- Pretty ---------- *)
  Inductive space := SpEmpty | SpDefault | SpPreserve.
  Inductive sentry := Unmixed (s : space) | Mixed.

  Definition is_mixed (e : sentry) : bool := match e with Mixed => true | _ => false end.
  Definition in_mixed (st : list sentry) : bool := existsb is_mixed st.      (* the stack, top FIRST *)

  Fixpoint in_space_preserve (st : list sentry) : bool :=
    match st with
    | [] => false
    | Unmixed SpPreserve :: _ => true
    | Unmixed SpDefault :: _ => false
    | Unmixed SpEmpty :: st' => in_space_preserve st'
    | Mixed :: _ => false
    end.

  (* get_indentation walks the stack from the bottom *)
  Fixpoint indent_count (bottom_first : list sentry) (in_preserve : bool) : nat :=
    match bottom_first with
    | [] => O
    | Unmixed SpDefault :: r => S (indent_count r false)
    | Unmixed SpPreserve :: r => indent_count r true
    | Unmixed SpEmpty :: r => if in_preserve then indent_count r in_preserve else S (indent_count r in_preserve)
    | Mixed :: r => indent_count r in_preserve
    end.

  Definition get_indentation (st : list sentry) : nat :=
    if in_mixed st || in_space_preserve st then O else indent_count (rev st) false.
  Definition get_newline (st : list sentry) : bool := negb (in_mixed st) && negb (in_space_preserve st).

  Definition s_preserve : str := [112; 114; 101; 115; 101; 114; 118; 101].
  Definition s_default : str := [100; 101; 102; 97; 117; 108; 116].

  Definition element_space (z : zipper) : space :=
    match List.find (fun a => N.eqb (fst a) (n_xml_space nm)) (attr_pairs z) with
    | Some (_, v) => if str_eqb v s_preserve then SpPreserve else if str_eqb v s_default then SpDefault else SpEmpty
    | None => SpEmpty
    end.

  Section Pretty.
    Variables (is_suppressed is_inline : nameid -> bool).

    Definition has_inline_child (z : zipper) : bool :=
      existsb (fun c => match z_val c with VText _ => true | VElement n => is_inline n | _ => false end) (children z).

    (* prettify(node, output): new stack, indentation, newline *)
    Definition prettify (st : list sentry) (z : zipper) (o : output) : list sentry * nat * bool :=
      match o with
      | OStartTagOpen _ => (st, get_indentation st, false)
      | OComment _ | OPI _ _ => (st, get_indentation st, get_newline st)
      | OStartTagClose =>
          if has_children z then
            if negb (has_inline_child z) then
              let suppress := match z_val z with VElement n => is_suppressed n | _ => false end in
              let st' := if suppress then Mixed :: st else Unmixed (element_space z) :: st in
              (st', O, get_newline st')
            else (Mixed :: st, O, false)
          else (st, O, false)
      | OEndTag _ =>
          if has_children z then
            let no_indentation := in_mixed st || in_space_preserve st in
            let st' := tl st in
            (st', if no_indentation then O else get_indentation st', get_newline st')
          else (st, O, get_newline st)
      | _ => (st, O, false)
      end.

    (* Pretty::seed_context: the context the node that is serialized stands in — an ancestor element that is suppressed or
       has an inline child makes everything mixed; otherwise the nearest xml:space among the ancestors, when it is preserve *)
    Definition seed_context (z : zipper) : list sentry :=
      let anc := tl (ancestors z) in
      if existsb (fun a => match z_val a with VElement n => is_suppressed n || has_inline_child a | _ => false end) anc
      then [Mixed]
      else match List.find (fun a => match z_val a, element_space a with VElement _, SpEmpty => false | VElement _, _ => true | _, _ => false end) anc with
           | Some a => match element_space a with SpPreserve => [Unmixed SpPreserve] | _ => [] end
           | None => []
           end.

    Fixpoint spaces (n : nat) : str := match n with O => [] | S k => 32 :: 32 :: spaces k end.

    Record ptoken := { pt_indent : nat; pt_space : bool; pt_text : str; pt_newline : bool }.

    Fixpoint pretty_all (prm : params) (st : sstate) (ps : list sentry) (evs : list (zipper * output))
      : sum serr (list (zipper * output * ptoken)) :=
      match evs with
      | [] => inr []
      | (z, o) :: evs' =>
          let '(ps', ind, nl) := prettify ps z o in
          match render prm st z o with
          | inl e => inl e
          | inr (st', t) =>
              match pretty_all prm st' ps' evs' with
              | inl e => inl e
              | inr l => inr ((z, o, {| pt_indent := ind; pt_space := t_space t; pt_text := t_text t; pt_newline := nl |}) :: l)
              end
          end
      end.

    Definition pretty_tokens (prm : params) (z : zipper) := pretty_all prm (ser_new z) (seed_context z) (gen_outputs z).

    Definition ptoken_text (t : ptoken) : str :=
      spaces (pt_indent t) ++ (if pt_space t then [32] else []) ++ pt_text t ++ (if pt_newline t then [10] else []).

    (* XmlSerializer::serialize_pretty: indentation, the rendered event, newline, written at once *)
    Fixpoint serialize_pretty_go (prm : params) (st : sstate) (ps : list sentry) (evs : list (zipper * output)) (buf : str)
      : sum serr str :=
      match evs with
      | [] => inr buf
      | (z, o) :: evs' =>
          let '(ps', ind, nl) := prettify ps z o in
          match render prm st z o with
          | inl e => inl e
          | inr (st', t) =>
              serialize_pretty_go prm st' ps' evs'
                (buf ++ spaces ind ++ (if t_space t then [32] else []) ++ t_text t ++ (if nl then [10] else []))
          end
      end.

    Definition serialize_pretty_write (prm : params) (z : zipper) : sum serr str :=
      serialize_pretty_go prm (ser_new z) (seed_context z) (gen_outputs z) [].

    Definition serialize_pretty (prm : params) (z : zipper) : sum serr str :=
      match pretty_tokens prm z with
      | inl e => inl e
      | inr l => inr (concat (map (fun x => ptoken_text (snd x)) l))
      end.
  End Pretty.

  (* ---------- Xot::serialize_xml_write: optional XML declaration, then the (pretty) serialisation ---------- *)
  Definition declaration_text (encoding : option str) (standalone : option bool) : str :=
    [60; 63; 120; 109; 108; 32; 118; 101; 114; 115; 105; 111; 110; 61; 34; 49; 46; 48; 34]            (* the XML declaration up to the version *)
    ++ (match encoding with
        | Some e => [32; 101; 110; 99; 111; 100; 105; 110; 103; 61; 34] ++ e ++ [34]                  (* encoding pseudo-attribute *)
        | None => [] end)
    ++ (match standalone with
        | Some b => [32; 115; 116; 97; 110; 100; 97; 108; 111; 110; 101; 61; 34]                      (* standalone pseudo-attribute *)
                    ++ (if b then [121; 101; 115] else [110; 111]) ++ [34]
        | None => [] end)
    ++ [63; 62; 10].                                                                                   (* closing, newline *)

  Definition serialize_xml (decl : option (option str * option bool)) (indent : option (nameid -> bool))
                           (prm : params) (z : zipper) : sum serr str :=
    let body := match indent with
                | Some sup => serialize_pretty_write sup (fun _ => false) prm z
                | None => serialize_write prm z
                end in
    match body with
    | inl e => inl e
    | inr s => inr ((match decl with Some (e, sa) => declaration_text e sa | None => [] end) ++ s)
    end.
End Ser.
