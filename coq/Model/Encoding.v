(* Encoding.v — src/encoding.rs after fix fb15229: which encoding label `Xot::parse_bytes` takes for data in an ASCII-compatible
   encoding.  Bytes and characters are numbers; a declaration that is not ASCII is outside the model (std::str::from_utf8 then
   decides whether there is a declaration at all; the harness draws ASCII declarations).  The decoders themselves (encoding_rs)
   and the sniffing of the other encodings (xhtmlchardet) are third-party code and not modelled. *)
From Coq Require Import List NArith Bool.
From XotV Require Import Model.Base.
Import ListNotations.
Open Scope N_scope.

Definition bytes := list N.

Fixpoint strip_pre (p s : bytes) : option bytes :=
  match p, s with
  | [], _ => Some s
  | a :: p', b :: s' => if a =? b then strip_pre p' s' else None
  | _ :: _, [] => None
  end.

(* u8::is_ascii_whitespace: space, tab, line feed, form feed, carriage return *)
Definition ascii_ws (c : N) : bool := (c =? 32) || (c =? 9) || (c =? 10) || (c =? 12) || (c =? 13).
(* char::is_whitespace on ASCII: the same and the vertical tab *)
Definition trim_ws (c : N) : bool := ascii_ws c || (c =? 11).

Fixpoint trim_start (s : bytes) : bytes :=
  match s with c :: r => if trim_ws c then trim_start r else s | [] => [] end.
Definition trim_end (s : bytes) : bytes := rev (trim_start (rev s)).
Definition trim (s : bytes) : bytes := trim_end (trim_start s).

(* str::split_once(c) *)
Fixpoint split_once (c : N) (s : bytes) : option (bytes * bytes) :=
  match s with
  | [] => None
  | x :: r => if x =? c then Some ([], r)
              else match split_once c r with Some (a, b) => Some (x :: a, b) | None => None end
  end.

(* the text in front of the first "?>" *)
Fixpoint before_pi_end (s : bytes) : option bytes :=
  match s with
  | [] => None
  | x :: r =>
      match r with
      | y :: _ => if (x =? 63) && (y =? 62) then Some []
                  else match before_pi_end r with Some a => Some (x :: a) | None => None end
      | [] => None
      end
  end.

Definition bom_utf8 : bytes := [239; 187; 191].
Definition s_xml_open : bytes := [60; 63; 120; 109; 108].                       (* <?xml *)
Definition s_encoding_name : bytes := [101; 110; 99; 111; 100; 105; 110; 103].   (* encoding *)

(* xml_declaration: the content of the XML declaration the data starts with *)
Definition xml_declaration (data : bytes) : option bytes :=
  let data := match strip_pre bom_utf8 data with Some d => d | None => data end in
  match strip_pre s_xml_open data with
  | None => None
  | Some d =>
      match d with
      | c :: _ => if ascii_ws c then before_pi_end d else None
      | [] => None
      end
  end.

Fixpoint bytes_eqb (a b : bytes) : bool :=
  match a, b with
  | [], [] => true
  | x :: a', y :: b' => (x =? y) && bytes_eqb a' b'
  | _, _ => false
  end.

(* declared_label: the loop over `name Eq quoted-value`; the fuel is the length of the text (each round consumes at least the
   '=' and the two quotes) *)
Fixpoint declared_label_fuel (fuel : nat) (rest : bytes) : option bytes :=
  match fuel with
  | O => None
  | S fuel' =>
      match split_once 61 rest with
      | None => None
      | Some (name, value) =>
          match trim_start value with
          | q :: v1 =>
              if (q =? 34) || (q =? 39) then
                match split_once q v1 with
                | None => None
                | Some (v, tail) =>
                    if bytes_eqb (trim name) s_encoding_name then Some v else declared_label_fuel fuel' tail
                end
              else None
          | [] => None
          end
      end
  end.
Definition declared_label (d : bytes) : option bytes := declared_label_fuel (S (length d)) d.

(* is_ascii_compatible *)
Definition firstn4 (d : bytes) : bytes := firstn 4 d.
Definition is_ascii_compatible (data : bytes) : bool :=
  match strip_pre bom_utf8 data with
  | Some _ => true
  | None =>
      let head := firstn4 data in
      negb (bytes_eqb head []) && negb (existsb (N.eqb 0) head)
      && negb (match strip_pre [254; 255] head with Some _ => true | None => false end)
      && negb (match strip_pre [255; 254] head with Some _ => true | None => false end)
      && negb (bytes_eqb head [76; 111; 167; 148])
  end.

Definition s_utf8_label : bytes := [85; 84; 70; 45; 56].   (* UTF-8 *)

(* encoding(): the label handed to Encoding::for_label for ASCII-compatible data; None: left to xhtmlchardet *)
Definition chosen_label (data : bytes) (hint : option bytes) : option bytes :=
  if is_ascii_compatible data then
    Some (match (match xml_declaration data with Some d => declared_label d | None => None end), hint with
          | Some l, _ => l
          | None, Some h => h
          | None, None => s_utf8_label
          end)
  else None.
