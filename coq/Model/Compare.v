(* Compare.v — model of the comparison half of src/valueaccess.rs: advanced_deep_equal as a zip of two filtered
   edge streams, advanced_compare_value / advanced_compare_attributes, deep_equal, deep_equal_children,
   deep_equal_xpath, shallow_equal(_ignore_attributes), string_value.  No proofs here.

   An edge carries what the Rust code reads at that edge: the node's value and, for an element, its attribute
   list in view order (`self.attributes(node)`).  Attribute and namespace nodes never appear in a traversal. *)
From XotV Require Import Model.Base.
Open Scope N_scope.

Definition attr := (nameid * str)%type.

Inductive cedge :=
| CStart (v : value) (attrs : list attr)
| CEnd (v : value).

(* the attribute view of a child list: skip namespace nodes, take attribute nodes *)
Fixpoint attrs_of (kids : forest) : list attr :=
  match kids with
  | FNil => []
  | FCons _ v _ r =>
      match v with
      | VNamespace _ _ => attrs_of r
      | VAttribute n s => (n, s) :: (fix take (f : forest) : list attr :=
                                       match f with
                                       | FCons _ (VAttribute n' s') _ r' => (n', s') :: take r'
                                       | _ => []
                                       end) r
      | _ => []
      end
  end.

(* traverse(node).filter(keep): edges of a sibling list; abnormal nodes are never part of it; a node that the
   filter drops contributes no edges of its own but its descendants are still visited *)
Fixpoint cedges (keep : value -> bool) (f : forest) : list cedge :=
  match f with
  | FNil => []
  | FCons _ v k r =>
      if is_normal v then
        if keep v then CStart v (attrs_of k) :: cedges keep k ++ CEnd v :: cedges keep r
        else cedges keep k ++ cedges keep r
      else cedges keep r
  end.

Section WithTextCompare.
  Variable tc : str -> str -> bool.      (* the supplied text comparison *)

  Fixpoint attr_get (key : nameid) (l : list attr) : option str :=
    match l with
    | [] => None
    | (k, v) :: l' => if N.eqb k key then Some v else attr_get key l'
    end.

  (* advanced_compare_attributes *)
  Definition compare_attributes (a b : list attr) : bool :=
    Nat.eqb (length a) (length b)
    && forallb (fun kv => match attr_get (fst kv) b with
                          | Some vb => tc (snd kv) vb
                          | None => false
                          end) a.

  (* advanced_compare_value *)
  Definition compare_value (va : value) (aa : list attr) (vb : value) (ab : list attr) : bool :=
    match va, vb with
    | VDocument, VDocument => true
    | VElement na, VElement nb => N.eqb na nb && compare_attributes aa ab
    | VText a, VText b => tc a b
    | VComment a, VComment b => tc a b
    | VPI ta da, VPI tb db =>
        N.eqb ta tb && match da, db with
                       | Some x, Some y => tc x y
                       | None, None => true
                       | _, _ => false
                       end
    | VAttribute na a, VAttribute nb b => N.eqb na nb && tc a b
    | VNamespace pa na, VNamespace pb nb => N.eqb pa pb && N.eqb na nb
    | _, _ => false
    end.

  (* the zip loop of advanced_deep_equal *)
  (* `for pair in edges_a.by_ref().zip(edges_b.by_ref())` followed by the leftover test: when b runs out first,
     zip has already taken one more edge from a, and only what comes AFTER it is seen by the leftover test *)
  Fixpoint zipcmp (ea eb : list cedge) : bool :=
    match ea, eb with
    | [], [] => true
    | [], _ :: _ => false
    | _ :: ea', [] => match ea' with [] => true | _ :: _ => false end
    | CStart va aa :: ea', CStart vb ab :: eb' => compare_value va aa vb ab && zipcmp ea' eb'
    | CEnd _ :: ea', CEnd _ :: eb' => zipcmp ea' eb'
    | _, _ => false
    end.

  (* advanced_deep_equal(a, b, filter, tc) on the nodes (v, kids) *)
  Definition advanced_deep_equal (keep : value -> bool) (va : value) (ka : forest) (vb : value) (kb : forest) : bool :=
    if negb (is_normal va) || negb (is_normal vb) then compare_value va (attrs_of ka) vb (attrs_of kb)
    else zipcmp (cedges keep (FCons 0 va ka FNil)) (cedges keep (FCons 0 vb kb FNil)).
End WithTextCompare.

Definition keep_all (_ : value) : bool := true.
Definition keep_xpath (v : value) : bool := match v with VElement _ | VText _ => true | _ => false end.

Definition deep_equal (va : value) (ka : forest) (vb : value) (kb : forest) : bool :=
  advanced_deep_equal str_eqb keep_all va ka vb kb.

(* the ordinary children of a child list: skip_while(not normal) *)
Fixpoint normal_kids (f : forest) : forest :=
  match f with
  | FNil => FNil
  | FCons i v k r => if is_normal v then f else normal_kids r
  end.

(* deep_equal_children: pairwise deep_equal of the children, same number of children *)
Fixpoint children_equal (fa fb : forest) : bool :=
  match fa, fb with
  | FNil, FNil => true
  | FCons _ va ka ra, FCons _ vb kb rb => deep_equal va ka vb kb && children_equal ra rb
  | _, _ => false
  end.
Definition deep_equal_children (ka kb : forest) : bool := children_equal (normal_kids ka) (normal_kids kb).

(* deep_equal_xpath *)
Definition deep_equal_xpath (tc : str -> str -> bool) (va : value) (ka : forest) (vb : value) (kb : forest) : bool :=
  match va, vb with
  | VElement _, VElement _ | VDocument, VDocument => advanced_deep_equal tc keep_xpath va ka vb kb
  | _, _ => compare_value tc va (attrs_of ka) vb (attrs_of kb)
  end.

(* shallow_equal_ignore_attributes *)
Definition nmem (n : N) (l : list N) : bool := existsb (N.eqb n) l.

Definition shallow_equal_ignore (ignore : list nameid) (va : value) (ka : forest) (vb : value) (kb : forest) : bool :=
  match va, vb with
  | VElement na, VElement nb =>
      if negb (N.eqb na nb) then false else
      let aa := attrs_of ka in
      let ab := attrs_of kb in
      let compared := filter (fun kv => negb (nmem (fst kv) ignore)) aa in
      forallb (fun kv => match attr_get (fst kv) ab with Some vb' => str_eqb (snd kv) vb' | None => false end) compared
      && Nat.eqb (length compared) (length (filter (fun kv => negb (nmem (fst kv) ignore)) ab))
  | _, _ => compare_value str_eqb va (attrs_of ka) vb (attrs_of kb)
  end.

Definition shallow_equal := shallow_equal_ignore [].

(* string_value; the namespace URI of a namespace node needs the tables: [ns_str] *)
Fixpoint text_of_forest (f : forest) : str :=
  match f with
  | FNil => []
  | FCons _ v k r =>
      (if is_normal v then match v with VText s => s | _ => text_of_forest k end else [])
      ++ text_of_forest r
  end.

Definition string_value (ns_str : nsid -> str) (v : value) (k : forest) : str :=
  match v with
  | VDocument | VElement _ => text_of_forest k
  | VText s => s
  | VPI _ d => match d with Some s => s | None => [] end
  | VComment s => s
  | VAttribute _ s => s
  | VNamespace _ ns => ns_str ns
  end.
