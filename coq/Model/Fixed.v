(* Fixed.v — model of src/fixed.rs: xotify of fixed::Document / fixed::Element as the sequence of creation and
   manipulation calls the Rust code makes.  Names, prefixes and namespaces are taken as already interned ids (xotify
   registers the strings first; the harness registers them in the same way).  No proofs here. *)
From XotV Require Import Model.Base Model.Zipper Model.Access Model.Store Model.Manip Model.Fullname.
Open Scope N_scope.

(* fixed::Content as a sibling list (left-child / right-sibling, like [forest]) *)
Inductive fcontent :=
| FCNil
| FCText (s : str) (rest : fcontent)
| FCComment (s : str) (rest : fcontent)
| FCPI (target : nameid) (data : option str) (rest : fcontent)
| FCElem (name : nameid) (prefixes : decls) (attrs : list (nameid * str)) (kids : fcontent) (rest : fcontent).

(* `for child in children { xot.append(element_node, child).unwrap() }`; None = the unwrap panics *)
Fixpoint append_all (st : xstate) (parent : N) (l : list N) : option xstate :=
  match l with
  | [] => Some st
  | c :: l' => match m_append st parent c with
               | (st1, MDone _) => append_all st1 parent l'
               | _ => None
               end
  end.

(* Content::xotify for every item of a child list, in order: returns the nodes created for the items *)
Fixpoint xotify_content (c : fcontent) (st : xstate) : option (xstate * list N) :=
  match c with
  | FCNil => Some (st, [])
  | FCText s r =>
      let '(st1, n) := new_node st (VText s) in
      match xotify_content r st1 with Some (st2, l) => Some (st2, n :: l) | None => None end
  | FCComment s r =>
      let '(st1, n) := new_node st (VComment s) in
      match xotify_content r st1 with Some (st2, l) => Some (st2, n :: l) | None => None end
  | FCPI t d r =>
      let '(st1, n) := new_node st (VPI t (match d with Some [] => None | x => x end)) in
      match xotify_content r st1 with Some (st2, l) => Some (st2, n :: l) | None => None end
  | FCElem name ps attrs kids r =>
      (* Element::xotify: new_element, namespaces_mut().insert, attributes_mut().insert, children, appends *)
      let '(st1, e) := new_node st (VElement name) in
      let st2 := fold_left (fun s d => map_insert s KNs e (VNamespace (fst d) (snd d))) ps st1 in
      let st3 := fold_left (fun s a => map_insert s KAttr e (VAttribute (fst a) (snd a))) attrs st2 in
      match xotify_content kids st3 with
      | None => None
      | Some (st4, ks) =>
          match append_all st4 e ks with
          | None => None
          | Some st5 => match xotify_content r st5 with Some (st6, l) => Some (st6, e :: l) | None => None end
          end
      end
  end.

(* fixed::Element::xotify *)
Definition xotify_element (name : nameid) (ps : decls) (attrs : list (nameid * str)) (kids : fcontent) (st : xstate)
  : option (xstate * N) :=
  match xotify_content (FCElem name ps attrs kids FCNil) st with
  | Some (st', [e]) => Some (st', e)
  | _ => None
  end.

(* fixed::Document::xotify; [before] / [after] hold comments and processing instructions only *)
Fixpoint insert_all_before (st : xstate) (ref : N) (c : fcontent) : option xstate :=
  match c with
  | FCNil => Some st
  | FCComment s r =>
      let '(st1, n) := new_node st (VComment s) in
      match m_insert_before st1 ref n with (st2, MDone _) => insert_all_before st2 ref r | _ => None end
  | FCPI t d r =>
      let '(st1, n) := new_node st (VPI t (match d with Some [] => None | x => x end)) in
      match m_insert_before st1 ref n with (st2, MDone _) => insert_all_before st2 ref r | _ => None end
  | _ => None
  end.

Fixpoint append_all_new (st : xstate) (parent : N) (c : fcontent) : option xstate :=
  match c with
  | FCNil => Some st
  | FCComment s r =>
      let '(st1, n) := new_node st (VComment s) in
      match m_append st1 parent n with (st2, MDone _) => append_all_new st2 parent r | _ => None end
  | FCPI t d r =>
      let '(st1, n) := new_node st (VPI t (match d with Some [] => None | x => x end)) in
      match m_append st1 parent n with (st2, MDone _) => append_all_new st2 parent r | _ => None end
  | _ => None
  end.

Definition xotify_document (before : fcontent) (name : nameid) (ps : decls) (attrs : list (nameid * str)) (kids : fcontent)
                           (after : fcontent) (st : xstate) : option (xstate * N) :=
  match xotify_element name ps attrs kids st with
  | None => None
  | Some (st1, child) =>
      match mstep st1 (ONewDocWith child) with
      | (st2, MDone (Some doc)) =>
          match insert_all_before st2 child before with
          | None => None
          | Some st3 => match append_all_new st3 doc after with Some st4 => Some (st4, doc) | None => None end
          end
      | _ => None
      end
  end.
