(* Paths.v — structural (cursor-free) descriptions of where a slot sits in a forest: the chain of its proper ancestors
   and the slots of the subtree below it.  The cursor-based queries of Model/Store.v (q_ancestors, q_parent) are proved
   equal to these in Proofs/ForestFacts.v, so that the invariants of C04 can be argued on forests alone. *)
From XotV Require Import Model.Base.
Open Scope N_scope.

(* the proper ancestors of [n], nearest first; None when [n] is not in the forest *)
Fixpoint path_in (n : N) (f : forest) : option (list N) :=
  match f with
  | FNil => None
  | FCons i v k r =>
      if N.eqb i n then Some []
      else match path_in n k with
           | Some l => Some (l ++ [i])
           | None => path_in n r
           end
  end.

(* the slots of the subtree rooted at [c]: c itself and everything below *)
Definition subtree_ids (c : N) (f : forest) : list N :=
  match find c f with Some (_, k) => c :: ids k | None => [] end.
