(* NoAdj.v — the text clause of C04: no two text nodes are adjacent siblings.
   The top-level list of a store is the set of parentless nodes (they are no siblings of one another), so only the child
   lists count. *)
From XotV Require Import Model.Base Model.Zipper Model.Access Model.Store.
Open Scope N_scope.

Definition head_text (f : forest) : bool := match f with FCons _ v _ _ => is_text_val v | FNil => false end.

(* one sibling list *)
Fixpoint na_list (f : forest) : bool :=
  match f with
  | FNil => true
  | FCons _ v _ r => negb (is_text_val v && head_text r) && na_list r
  end.

(* every child list of every node of [f] *)
Fixpoint na (f : forest) : bool :=
  match f with
  | FNil => true
  | FCons _ _ k r => na_list k && na k && na r
  end.

Definition noadj (st : xstate) : Prop := na (store st) = true.
