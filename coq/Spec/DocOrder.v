(* DocOrder.v — the declarative side of C07: document order is the pre-order list [nodes] (slot and value) of the tree that
   contains the cursor; around a cursor that list splits into
       pre z ++ [self] ++ sub z ++ post z
   where [pre z] interleaves the ancestors with everything that precedes, [sub z] are the descendants and
   [post z] is what follows.  No proofs here. *)
From XotV Require Import Model.Base Model.Zipper Model.Access.
Open Scope N_scope.

(* ids of a REVERSED sibling list (nearest first) read back in document order *)
Fixpoint rids (a : forest) : list node :=
  match a with
  | FNil => []
  | FCons i v k r => rids r ++ (i, v) :: nodes k
  end.

(* everything before the focus that comes from the ancestors' levels, outermost first:
   for each ancestor, its preceding siblings (with their subtrees) and then the ancestor itself *)
Fixpoint pre_ups (ups : list frame) : list node :=
  match ups with
  | [] => []
  | fr :: ups' => pre_ups ups' ++ rids (fr_before fr) ++ [frpair fr]
  end.

Fixpoint post_ups (ups : list frame) : list node :=
  match ups with
  | [] => []
  | fr :: ups' => nodes (fr_after fr) ++ post_ups ups'
  end.

Definition pre (z : zipper) : list node := pre_ups (z_ups z) ++ rids (z_before z).
Definition sub (z : zipper) : list node := nodes (z_kids z).
Definition post (z : zipper) : list node := nodes (z_after z) ++ post_ups (z_ups z).

(* the same without the ancestors themselves: the nodes that precede the focus *)
Fixpoint before_ups (ups : list frame) : list node :=
  match ups with
  | [] => []
  | fr :: ups' => before_ups ups' ++ rids (fr_before fr)
  end.
Definition before (z : zipper) : list node := before_ups (z_ups z) ++ rids (z_before z).

Definition ancestor_slots (z : zipper) : list node := map frpair (z_ups z).   (* nearest first *)

(* document order of the whole tree *)
Definition doc_order (z : zipper) : list node := nodes (plug z).

(* value lookup by slot in a forest: used to state "ordinary" on slot lists *)
Fixpoint val_of (n : N) (f : forest) : option value :=
  match f with
  | FNil => None
  | FCons i v k r => if N.eqb i n then Some v
                     else match val_of n k with Some x => Some x | None => val_of n r end
  end.

(* sibling lists are namespace* attribute* normal*, and only normal nodes have children *)
Definition cat_rank (c : vcat) : nat := match c with CNamespace => 0 | CAttribute => 1 | CNormal => 2 end.

Fixpoint ordered_from (lo : nat) (f : forest) : bool :=
  match f with
  | FNil => true
  | FCons _ v k r =>
      let c := cat_rank (value_category v) in
      Nat.leb lo c
      && (match value_category v with CNormal => ordered_from 0 k | _ => match k with FNil => true | _ => false end end)
      && ordered_from c r
  end.

Definition ordered (f : forest) : bool := ordered_from 0 f.
