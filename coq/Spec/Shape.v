(* Shape.v — the structural half of C04 as a boolean predicate on the store:
   under every element namespace nodes come first, then attribute nodes, then ordinary children;
   attribute and namespace nodes occur only under elements (or alone, as parentless nodes);
   document nodes occur only as roots; only documents and elements have children.
   (Mutual consistency of the links, acyclicity and "a parentless node has no siblings" are carried by the
   representation: a store is an inductive forest whose top-level list is the set of parentless nodes.) *)
From XotV Require Import Model.Base Spec.DocOrder.
Open Scope N_scope.

Definition vrank (v : value) : nat := cat_rank (value_category v).
Definition is_doc (v : value) : bool := match v with VDocument => true | _ => false end.
Definition is_elem (v : value) : bool := match v with VElement _ => true | _ => false end.
Definition isnil (f : forest) : bool := match f with FNil => true | _ => false end.

(* where a sibling list sits: the top level of the store, under a document, under an element *)
Inductive ctx := CRoot | CDoc | CElem.

Definition node_ok (c : ctx) (lo : nat) (v : value) : bool :=
  match c with
  | CRoot => true
  | CDoc => is_normal v && negb (is_doc v)
  | CElem => negb (is_doc v) && Nat.leb lo (vrank v)
  end.

Definition next_lo (c : ctx) (v : value) : nat := match c with CRoot => O | _ => vrank v end.

Fixpoint shape (c : ctx) (lo : nat) (f : forest) : bool :=
  match f with
  | FNil => true
  | FCons _ v k r =>
      node_ok c lo v
      && (match v with VDocument => shape CDoc 0 k | VElement _ => shape CElem 0 k | _ => isnil k end)
      && shape c (next_lo c v) r
  end.

Definition kids_ok (v : value) (k : forest) : bool :=
  match v with VDocument => shape CDoc 0 k | VElement _ => shape CElem 0 k | _ => isnil k end.

Definition shape_store (f : forest) : bool := shape CRoot 0 f.

(* a subtree that may be inserted as an ordinary child: a normal node that is not a document *)
Definition child_ok (v : value) : bool := is_normal v && negb (is_doc v).

(* value updates that keep a node in its class *)
Definition same_class (v w : value) : Prop :=
  vrank v = vrank w /\ is_doc v = is_doc w /\ is_elem v = is_elem w.

(* ---------- attribute names and declared prefixes are unique per element ---------- *)

(* = Manip.key_of: the name of an attribute node, the prefix of a namespace node *)
Definition key_of_node (v : value) : N := match v with VAttribute n _ => n | VNamespace p _ => p | _ => 0 end.

(* the keys of the nodes of category [c] in one sibling list *)
Fixpoint level_keys (c : vcat) (f : forest) : list N :=
  match f with
  | FNil => []
  | FCons _ v _ r => if vcat_eqb (value_category v) c then key_of_node v :: level_keys c r else level_keys c r
  end.

Fixpoint nodupb (l : list N) : bool :=
  match l with [] => true | x :: l' => negb (existsb (N.eqb x) l') && nodupb l' end.

(* the child list [k] of one node has no attribute name twice and no prefix twice *)
Definition level_ok (k : forest) : bool := nodupb (level_keys CAttribute k) && nodupb (level_keys CNamespace k).

Fixpoint keys (f : forest) : bool :=
  match f with
  | FNil => true
  | FCons _ _ k r => level_ok k && keys k && keys r
  end.

(* updates that leave a node's category alone and, for an attribute or namespace node, its key *)
Definition same_key (v w : value) : Prop :=
  value_category v = value_category w /\ (value_category v <> CNormal -> key_of_node v = key_of_node w).
