#!/bin/sh
# Builds the framework from files on disk only (offline): Coq development, harness binaries, model drivers.
set -e
cd "$(dirname "$0")"
export CARGO_NET_OFFLINE=true
python3 tools/gen_tables.py >/dev/null
( cd coq && coq_makefile -f _CoqProject -o Makefile >/dev/null && timeout 3600 make -j16 >/dev/null )
cp /repo/Cargo.lock harness/Cargo.lock
( cd harness && RUSTFLAGS="--cfg xot_verif -Awarnings" CARGO_TARGET_DIR=/verif/target timeout 3600 cargo build --offline --release --bins 2>&1 | tail -3 )
echo setup done
