#!/usr/bin/env python3
"""Translator: reads constants and tables out of /repo/src and writes coq/Gen/Tables.v.

Tables and constants only, no code:
  * id widths and conversion style of NameId / NamespaceId / PrefixId   (src/id/*.rs)
  * the built-in strings registered by Xot::new, in order               (src/xotdata.rs)
  * the three HTML namespace URIs and the five HTML name tables         (src/output/html5elements.rs)
  * the character level of src/entity.rs: the predefined entities parse_content knows, the escape every match arm of
    serialize_attribute and every unguarded arm of serialize_text writes, the escape of the guarded '>' arms, and the
    character ranges of is_xml_char
  * the white-space characters and the xml:space literal of src/unpretty.rs
Exit status 2 (and a message on stderr) when an expected declaration cannot be found: the tie
between model and source is then broken and ./check reports that.
"""
import hashlib
import json
import os
import re
import sys


class TieBroken(Exception):
    pass


def read(repo, rel):
    p = os.path.join(repo, rel)
    try:
        with open(p, encoding="utf-8") as f:
            return f.read()
    except OSError as e:
        raise TieBroken(f"cannot read {rel}: {e}")


def coq_str(s):
    return "[" + "; ".join(str(ord(c)) for c in s) + "]"


def rust_str_lit(lit):
    # only plain literals without escapes other than \" \\ \n \t are expected in these tables
    assert lit.startswith('"') and lit.endswith('"'), lit
    body = lit[1:-1]
    out = []
    i = 0
    while i < len(body):
        c = body[i]
        if c == "\\":
            n = body[i + 1]
            out.append({"n": "\n", "t": "\t", "\\": "\\", '"': '"', "r": "\r", "0": "\0"}[n])
            i += 2
        else:
            out.append(c)
            i += 1
    return "".join(out)


def id_info(src, ty, rel, macro_src=None):
    m = re.search(r"pub struct %s\((?:pub\(crate\) )?u(\d+)\)" % ty, src)
    if not m:
        raise TieBroken(f"{rel}: cannot find `pub struct {ty}(uN)`")
    width = int(m.group(1))
    body = re.search(r"fn to_id\(index: usize\) -> %s \{(.*?)\n    \}" % ty, src, re.S)
    if body:
        b = body.group(1)
    else:
        # the impl may come from a macro invoked with the type (`impl_xxx!(NameId);`): read to_id from the macro's body,
        # wherever under src/id/ the macro is defined
        inv = re.search(r"^\s*(\w+)!\(\s*%s\s*\);" % ty, src, re.M)
        mbody = None
        if inv:
            for other in (src, macro_src or ""):
                mm = re.search(r"macro_rules!\s+%s\s*\{(.*?)\n\}" % re.escape(inv.group(1)), other, re.S)
                if mm:
                    mbody = mm.group(1)
                    break
        tb = mbody and re.search(r"fn to_id\(index: usize\) -> \$(\w+) \{(.*?)\}", mbody, re.S)
        if not tb:
            raise TieBroken(f"{rel}: cannot find to_id")
        b = tb.group(2)
    m2 = re.search(r"index as u(\d+)", b)
    m3 = re.search(r"u(\d+)::try_from\(index\)\s*\.(?:expect|unwrap)", b)
    if m3:
        if int(m3.group(1)) != width:
            raise TieBroken(f"{rel}: conversion width differs from the struct width")
        checked = True
    elif m2:
        checked = False
        width = min(width, int(m2.group(1)))
    else:
        raise TieBroken(f"{rel}: cannot classify the index conversion in to_id: {b.strip()!r}")
    return width, checked


def rust_char_lit(body):
    """the character a Rust char literal denotes (body = what stands between the quotes)"""
    if body.startswith("\\u{") and body.endswith("}"):
        return chr(int(body[3:-1], 16))
    if body.startswith("\\"):
        return {"n": "\n", "t": "\t", "r": "\r", "\\": "\\", "'": "'", '"': '"', "0": "\0"}[body[1:]]
    if len(body) != 1:
        raise TieBroken(f"src/entity.rs: char literal not understood: {body!r}")
    return body


CHAR = r"'((?:\\u\{[0-9A-Fa-f]+\}|\\.|[^'\\]))'"


def fn_body(src, name, rel):
    m = re.search(r"fn %s\b" % name, src)
    if not m:
        raise TieBroken(f"{rel}: cannot find fn {name}")
    # the body starts at the first '{' after the signature's return type
    sig_end = src.index("{", src.index("->", m.end()))
    depth, j = 0, sig_end
    while True:
        c = src[j]
        if c == "{":
            depth += 1
        elif c == "}":
            depth -= 1
            if depth == 0:
                return src[sig_end:j + 1]
        elif c == "'" :
            # skip a char literal such as '{' or '\''
            mm = re.match(CHAR, src[j:])
            if mm:
                j += mm.end() - 1
        elif c == '"':
            mm = re.match(r'"(?:[^"\\]|\\.)*"', src[j:])
            if mm:
                j += mm.end() - 1
        elif src.startswith("//", j):
            j = src.index("\n", j)
        j += 1


def entity_tables(src, rel, emit):
    strip = lambda t: re.sub(r"//[^\n]*", "", t)
    # predefined entities of parse_content
    body = strip(fn_body(src, "parse_content", rel))
    m = re.search(r"match entity\.as_str\(\) \{(.*?)_ =>", body, re.S)
    if not m:
        raise TieBroken(f"{rel}: cannot find the predefined-entity match in parse_content")
    ents = re.findall(r"\"(\w+)\" => result\.push\(%s\)" % CHAR, m.group(1))
    left = re.sub(r"\"(\w+)\" => result\.push\(%s\)," % CHAR, "", m.group(1)).strip()
    if not ents or left:
        raise TieBroken(f"{rel}: predefined-entity arms not understood: {left[:60]!r}")
    emit("Definition named_entities : list (list N * N) :=\n  [%s]." % "; ".join(
        "(%s, %d)" % (coq_str(n), ord(rust_char_lit(c))) for n, c in ents))
    # the attribute-value rule of parse_content
    if not re.search(r"else if attribute && \(c == '\\t' \|\| c == '\\n'\)\s*\{[^}]*result\.push\(' '\)", body):
        raise TieBroken(f"{rel}: the attribute-value normalisation branch of parse_content changed")

    def arms(fn):
        b = strip(fn_body(src, fn, rel))
        m = re.search(r"match c \{(.*)\}\s*\}\s*(?:if !change|result)", b, re.S)
        if not m:
            raise TieBroken(f"{rel}: cannot find `match c` in {fn}")
        return m.group(1)

    def simple_arms(text, fn):
        # 'x' => { change = true; result.push_str("...") }     (no guard)
        out = []
        for mm in re.finditer(r"%s\s*=>\s*\{\s*change = true;\s*result\.push_str\((\"[^\"]*\")\)\s*;?\s*\}" % CHAR, text):
            out.append((rust_char_lit(mm.group(1)), rust_str_lit(mm.group(2))))
        return out

    a = arms("serialize_attribute")
    at = simple_arms(a, "serialize_attribute")
    rest = re.sub(r"%s\s*=>\s*\{\s*change = true;\s*result\.push_str\((\"[^\"]*\")\)\s*;?\s*\}" % CHAR, "", a).strip()
    if rest.replace(",", "").strip() != "_ => result.push(c)":
        raise TieBroken(f"{rel}: serialize_attribute has arms the translator does not understand: {rest[:80]!r}")
    emit("Definition attr_escapes : list (N * list N) :=\n  [%s]." % "; ".join("(%d, %s)" % (ord(c), coq_str(e)) for c, e in at))
    t = arms("serialize_text")
    tt = simple_arms(t, "serialize_text")
    emit("Definition text_escapes : list (N * list N) :=\n  [%s]." % "; ".join("(%d, %s)" % (ord(c), coq_str(e)) for c, e in tt))
    g = re.findall(r"'>' if !unescaped_gt\s*=>\s*\{\s*change = true;\s*result\.push_str\((\"[^\"]*\")\)", t)
    g2 = re.findall(r"'>' if unescaped_gt\s*=>", t)
    if len(g) != 1 or len(g2) != 1:
        raise TieBroken(f"{rel}: the two guarded '>' arms of serialize_text changed")
    inner = re.findall(r"result\.push_str\((\"[^\"]*\")\);\s*continue;", t)
    if len(inner) != 1 or inner[0] != g[0]:
        raise TieBroken(f"{rel}: the ']]>' branch of serialize_text does not write the same escape as the plain '>' arm")
    emit("Definition text_gt_escape : list N := %s." % coq_str(rust_str_lit(g[0])))
    # every other arm of serialize_text must be one of those above or the fall-through
    rest = re.sub(r"%s\s*=>\s*\{\s*change = true;\s*result\.push_str\((\"[^\"]*\")\)\s*;?\s*\}" % CHAR, "", t)
    rest = re.sub(r"'>' if !unescaped_gt\s*=>\s*\{[^}]*\}", "", rest)
    i = rest.find("'>' if unescaped_gt")
    if i < 0 or "_ => result.push(c)" not in rest[i:]:
        raise TieBroken(f"{rel}: serialize_text arms not understood")
    if rest[:i].replace(",", "").strip():
        raise TieBroken(f"{rel}: serialize_text has arms the translator does not understand: {rest[:i].strip()[:80]!r}")
    # is_xml_char
    m = re.search(r"fn is_xml_char\(c: char\) -> bool \{\s*matches!\(c,(.*?)\)\s*\}", src, re.S)
    if not m:
        raise TieBroken(f"{rel}: cannot find is_xml_char")
    ranges = []
    for alt in m.group(1).split("|"):
        alt = alt.strip()
        mm = re.fullmatch(r"%s\.\.=%s" % (CHAR, CHAR), alt)
        if mm:
            ranges.append((ord(rust_char_lit(mm.group(1))), ord(rust_char_lit(mm.group(2)))))
            continue
        mm = re.fullmatch(CHAR, alt)
        if not mm:
            raise TieBroken(f"{rel}: is_xml_char alternative not understood: {alt!r}")
        ranges.append((ord(rust_char_lit(mm.group(1))),) * 2)
    emit("Definition xml_char_ranges : list (N * N) := [%s]." % "; ".join("(%d, %d)" % r for r in ranges))
    emit("")


def unpretty_tables(src, rel, emit):
    m = re.search(r"fn is_whitespace\(text: &str\) -> bool \{(.*?)\n\}", src, re.S)
    if not m:
        raise TieBroken(f"{rel}: cannot find is_whitespace")
    mm = re.search(r"text\.chars\(\)\.all\(\|c\| matches!\(c,(.*?)\)\)", re.sub(r"//[^\n]*", "", m.group(1)), re.S)
    if not mm:
        raise TieBroken(f"{rel}: is_whitespace is no longer `all(|c| matches!(c, ...))`")
    ws = []
    for alt in mm.group(1).split("|"):
        a = re.fullmatch(CHAR, alt.strip())
        if not a:
            raise TieBroken(f"{rel}: is_whitespace alternative not understood: {alt.strip()!r}")
        ws.append(ord(rust_char_lit(a.group(1))))
    emit("Definition xml_ws_chars : list N := [%s]." % "; ".join(str(c) for c in ws))
    m = re.search(r"fn in_preserve_space.*?return value == (\"[^\"]*\");", src, re.S)
    if not m:
        raise TieBroken(f"{rel}: in_preserve_space no longer compares the nearest xml:space value with one literal")
    emit("Definition xml_space_preserve : list N := %s." % coq_str(rust_str_lit(m.group(1))))
    emit("")



VARIANTS = ["Document", "Element", "Text", "ProcessingInstruction", "Comment", "Attribute", "Namespace"]


def value_tables(src, rel, emit):
    """src/xmlvalue.rs: value_type, value_category, is_normal as tables over the constructors of Value (numbered in the order
    Document, Element, Text, ProcessingInstruction, Comment, Attribute, Namespace), and the text Comment::set refuses"""
    def arms_of(fn, target_enum):
        body = fn_body(src, fn, rel)
        m = re.search(r"match\s+self\s*\{(.*)\}\s*\}\s*$", body, re.S)
        if not m:
            raise TieBroken(f"{rel}: {fn} is no longer one `match self`")
        table = {}
        for arm in re.split(r",\s*(?=Value::)", m.group(1).strip().rstrip(",")):
            mm = re.fullmatch(r"((?:Value::\w+(?:\(_\))?\s*\|?\s*)+)=>\s*%s::(\w+)" % target_enum, arm.strip(), re.S)
            if not mm:
                raise TieBroken(f"{rel}: arm of {fn} not understood: {arm.strip()[:60]!r}")
            for v in re.findall(r"Value::(\w+)", mm.group(1)):
                if v not in VARIANTS or v in table:
                    raise TieBroken(f"{rel}: {fn} names an unknown or repeated variant {v}")
                table[v] = mm.group(2)
        if sorted(table) != sorted(VARIANTS):
            raise TieBroken(f"{rel}: {fn} does not cover the seven variants of Value")
        return table
    types = arms_of("value_type", "ValueType")
    cats = arms_of("value_category", "ValueCategory")
    if any(types[v] != v for v in VARIANTS):
        raise TieBroken(f"{rel}: value_type does not map every variant to the ValueType of the same name")
    cat_no = {"Normal": 0, "Attribute": 1, "Namespace": 2}
    if any(c not in cat_no for c in cats.values()):
        raise TieBroken(f"{rel}: value_category names an unknown category")
    body = fn_body(src, "is_normal", rel)
    m = re.search(r"matches!\(\s*self\s*,(.*)\)\s*\}\s*$", body, re.S)
    if not m:
        raise TieBroken(f"{rel}: is_normal is no longer `matches!(self, ...)`")
    normal = re.findall(r"Value::(\w+)", m.group(1))
    if any(v not in VARIANTS for v in normal) or re.sub(r"Value::\w+(\(_\))?|[\s|]", "", m.group(1)) != "":
        raise TieBroken(f"{rel}: is_normal alternatives not understood")
    # Comment::set
    i = src.find("impl Comment")
    if i < 0:
        raise TieBroken(f"{rel}: cannot find impl Comment")
    cbody = fn_body(src[i:], "set", rel)
    m = re.search(r'if\s+text\.contains\((".*?")\)\s*\{\s*return\s+Err\(Error::InvalidComment\(text\)\);\s*\}\s*self\.text\s*=\s*text;\s*Ok\(\(\)\)', cbody, re.S)
    if not m:
        raise TieBroken(f"{rel}: Comment::set is no longer `if text.contains(LIT) {{ return Err(InvalidComment) }} self.text = text; Ok(())`")
    lit = rust_str_lit(m.group(1))
    emit("(* src/xmlvalue.rs: constructors of Value numbered Document 0, Element 1, Text 2, ProcessingInstruction 3, Comment 4, Attribute 5, Namespace 6;")
    emit("   categories numbered Normal 0, Attribute 1, Namespace 2 *)")
    emit("Definition src_value_category : list (N * N) := [%s]." % "; ".join("(%d, %d)" % (k, cat_no[cats[v]]) for k, v in enumerate(VARIANTS)))
    emit("Definition src_is_normal : list N := [%s]." % "; ".join(str(VARIANTS.index(v)) for v in normal))
    emit("Definition src_comment_refused : list N := [%s]." % "; ".join(str(ord(c)) for c in lit))
    emit("")

def main():
    repo = os.environ.get("VERIF_REPO", "/repo")
    out = sys.argv[1] if len(sys.argv) > 1 else os.path.join(os.path.dirname(__file__), "..", "coq", "Gen", "Tables.v")
    inputs = {}
    lines = []
    emit = lines.append
    emit("(* GENERATED by tools/gen_tables.py from %s/src — do not edit. *)" % repo)
    emit("From Coq Require Import List NArith.")
    emit("Import ListNotations.")
    emit("Open Scope N_scope.")
    emit("")

    # --- ids
    for ty, rel, nm in [("NameId", "src/id/name.rs", "name"), ("NamespaceId", "src/id/namespace.rs", "namespace"),
                        ("PrefixId", "src/id/prefix.rs", "prefix")]:
        src = read(repo, rel)
        inputs[rel] = src
        try:
            macro_src = read(repo, "src/id/idmap.rs")
            inputs["src/id/idmap.rs"] = macro_src
        except TieBroken:
            macro_src = None
        w, checked = id_info(src, ty, rel, macro_src)
        emit(f"Definition id_width_{nm} : N := {w}.")
        emit(f"Definition id_checked_{nm} : bool := {'true' if checked else 'false'}.")
    emit("")

    # --- Xot::new built-ins
    rel = "src/xotdata.rs"
    src = read(repo, rel)
    inputs[rel] = src
    m = re.search(r"pub fn new\(\) -> Self \{(.*?)\n        Xot \{", src, re.S)
    if not m:
        raise TieBroken(f"{rel}: cannot find Xot::new")
    body = m.group(1)
    regs = re.findall(
        r"let (\w+) = (\w+)_lookup\s*\.get_id_mut\(\s*(?:&Name::new\((\"[^\"]*\"), (\w+)\)|(\"[^\"]*\"))\s*\);", body)
    got = [(var, tab, rust_str_lit(a or c), nsvar) for (var, tab, a, nsvar, c) in regs]
    expect = [("no_namespace_id", "namespace"), ("empty_prefix_id", "prefix"), ("xml_namespace_id", "namespace"),
              ("xml_prefix_id", "prefix"), ("xml_space_id", "name"), ("xml_id_id", "name")]
    if [(v, t) for (v, t, _, _) in got] != expect:
        raise TieBroken(f"{rel}: Xot::new registrations are not the expected six, in order: {got}")
    if got[0][2] != "" or got[1][2] != "":
        raise TieBroken(f"{rel}: no-namespace / empty-prefix are not registered as the empty string")
    if got[4][3] != "xml_namespace_id" or got[5][3] != "xml_namespace_id":
        raise TieBroken(f"{rel}: xml:space / xml:id not registered in the xml namespace")
    emit("Definition s_xml_ns : list N := %s." % coq_str(got[2][2]))
    emit("Definition s_xml_prefix : list N := %s." % coq_str(got[3][2]))
    emit("Definition s_space : list N := %s." % coq_str(got[4][2]))
    emit("Definition s_id : list N := %s." % coq_str(got[5][2]))
    if not re.search(r"text_consolidation: true", src):
        raise TieBroken(f"{rel}: text_consolidation default not found")
    emit("")

    # --- html5 tables
    rel = "src/output/html5elements.rs"
    src = read(repo, rel)
    inputs[rel] = src
    for const, nm in [("XHTML_NS", "xhtml_ns"), ("MATHML_NS", "mathml_ns"), ("SVG_NS", "svg_ns")]:
        m = re.search(r"const %s: &str = (\"[^\"]*\");" % const, src)
        if not m:
            raise TieBroken(f"{rel}: cannot find const {const}")
        emit("Definition %s : list N := %s." % (nm, coq_str(rust_str_lit(m.group(1)))))
    m = re.search(r"let xhtml_namespace_id = xot.add_namespace\(XHTML_NS\);\s*"
                  r"let mathml_namespace_id = xot.add_namespace\(MATHML_NS\);\s*"
                  r"let svg_namespace_id = xot.add_namespace\(SVG_NS\);", src)
    if not m:
        raise TieBroken(f"{rel}: namespace registration order changed")
    tables = {}
    for nm in ["html5_names", "void_names", "phrasing_content_names", "formatted_names", "no_escape_names"]:
        m = re.search(r"let %s = \[(.*?)\];" % nm, src, re.S)
        if not m:
            raise TieBroken(f"{rel}: cannot find array {nm}")
        body = re.sub(r"//[^\n]*", "", m.group(1))
        items = re.findall(r"\"[^\"]*\"", body)
        rest = re.sub(r"\"[^\"]*\"", "", body)
        if rest.replace(",", "").strip():
            raise TieBroken(f"{rel}: unexpected tokens in array {nm}: {rest.strip()[:40]!r}")
        tables[nm] = [rust_str_lit(i) for i in items]
        emit("Definition %s : list (list N) :=\n  [%s]." % (nm, ";\n   ".join(coq_str(s) for s in tables[nm])))
    order = re.findall(r"let (\w+)\s*=\s*HtmlNames::new\(xot, xhtml_namespace_id, &(\w+)\);", src)
    if [a for a, _ in order] != [b for _, b in order] or sorted(a for a, _ in order) != sorted(tables):
        raise TieBroken(f"{rel}: HtmlNames::new calls not recognised: {order}")
    emit("Definition html_table_order : list (list (list N)) := [%s]." % "; ".join(a for a, _ in order))
    emit("")

    # --- character level and white space: OPTIONAL tables.  The model does not compute with them (its functions are hand-written
    # and tied to the crate by the correspondence runs); Proofs/EntityTables.v proves the model's functions equal to these tables,
    # which ties the character-level theorems to the source text as well.  When the source is written in a shape this reader does
    # not understand, the tables are left out, `src_tables_read` says so, and ./check skips the Props/*src.v files (reporting it).
    optional_problem = None
    opt_lines = []
    try:
        rel = "src/entity.rs"
        src = read(repo, rel)
        inputs[rel] = src
        entity_tables(src, rel, opt_lines.append)
        rel = "src/unpretty.rs"
        src = read(repo, rel)
        inputs[rel] = src
        unpretty_tables(src, rel, opt_lines.append)
    except TieBroken as e:
        optional_problem = str(e)
        opt_lines = []
    emit("Definition src_tables_read : bool := %s." % ("false" if optional_problem else "true"))
    lines.extend(opt_lines)
    # --- a second optional group, read independently of the first: the classification of node values and the comment check
    values_problem = None
    val_lines = []
    try:
        rel = "src/xmlvalue.rs"
        src = read(repo, rel)
        inputs[rel] = src
        value_tables(src, rel, val_lines.append)
    except TieBroken as e:
        values_problem = str(e)
        val_lines = []
    emit("Definition src_values_read : bool := %s." % ("false" if values_problem else "true"))
    lines.extend(val_lines)

    text = "\n".join(lines) + "\n"
    os.makedirs(os.path.dirname(out), exist_ok=True)
    old = None
    if os.path.exists(out):
        with open(out) as f:
            old = f.read()
    if old != text:  # keep the mtime when nothing changed so that make does not rebuild
        with open(out, "w") as f:
            f.write(text)
    sha = hashlib.sha256("".join(k + "\0" + v for k, v in sorted(inputs.items())).encode()).hexdigest()
    print(json.dumps({"tables_v": os.path.abspath(out), "inputs": sorted(inputs), "inputs_sha256": sha,
                      "changed": old != text, "src_tables_read": optional_problem is None,
                      "src_tables_problem": optional_problem,
                      "src_values_read": values_problem is None, "src_values_problem": values_problem}))


if __name__ == "__main__":
    try:
        main()
    except TieBroken as e:
        print("TIE-BROKEN: " + str(e), file=sys.stderr)
        sys.exit(2)
