#!/bin/bash
# tools/try_seed.sh <property> <seed-name> <worktree>   — confirm a seeded change (suite green with it, demo fails with it and
# passes without it) in the scratch worktree, then run the property's check against it in /repo and undo it.
set -u
P=$1; NAME=$2; WT=$3
D=/verif/seeded/$NAME
mkdir -p $D
cp $WT/seed/patch.diff $D/patch.diff
cp $WT/seed/demo.rs $D/demo.rs
cp $WT/seed/README.md $D/agent_README.md 2>/dev/null
export CARGO_NET_OFFLINE=true CARGO_TARGET_DIR=$WT/target
cd $WT
git checkout -q -- src; rm -f tests/seed_demo_*.rs
cp $D/demo.rs tests/seed_demo_x.rs
clean=$(cargo test --offline --test seed_demo_x 2>&1 | grep -E "^test result" | head -1)
git apply $D/patch.diff || { echo "patch does not apply"; exit 2; }
seeded=$(cargo test --offline --test seed_demo_x 2>&1 | grep -E "^test result|panicked|error\[" | head -1)
rm -f tests/seed_demo_x.rs
suite=$(cargo test --workspace --no-fail-fast --offline 2>&1 | grep -E "^test result" | grep -vc "ok\.")
git checkout -q -- src
echo "demo on clean tree : $clean"
echo "demo with change   : $seeded"
echo "suite with change  : $suite failing test binaries"
cd /verif
git -C /repo apply $D/patch.diff || { echo "patch does not apply to /repo"; exit 2; }
res=$(./check $P --tier quick 2>&1 | grep -E "^(OK|VIOLATION)" | head -3 | tr '\n' ' ')
git -C /repo checkout -- .
echo "check $P quick     : $res"
python3 - "$P" "$NAME" "$clean" "$seeded" "$suite" "$res" <<'PY'
import json,sys
p,name,clean,seeded,suite,res=sys.argv[1:7]
meta={"property":p,"name":name,"confirmed":{"demo_on_clean_tree":clean,"demo_with_change":seeded,"suite_failing_binaries_with_change":int(suite)},
      "check_quick":res.strip(),"caught_by_quick":"VIOLATION" in res,
      "ran":["cargo test --offline --test seed_demo_x (clean / with patch) in a scratch worktree","cargo test --workspace --no-fail-fast --offline with patch","git -C /repo apply patch.diff; ./check %s --tier quick; git -C /repo checkout -- ."%p]}
json.dump(meta,open(f"/verif/seeded/{name}/meta.json","w"),indent=1)
PY
rm -rf /verif/replays
