#!/usr/bin/env python3
"""mkcase.py <id> <class> <doc|frag> <text>  ->  one parser case line (tokens are recomputed by the harness)"""
import sys
def enc(s):
    return ".".join(str(ord(c)) for c in s) if s else "_"
cid, cls, mode, text = sys.argv[1:5]
text = text.encode("utf-8").decode("unicode_escape").encode("latin1").decode("utf-8") if "\\" in text else text
print(f"{cid} {cls} {mode} {len(text.encode('utf-8'))} | - | {enc(text)}")
