#!/bin/bash
# tools/try_harmless.sh <name> <worktree> — apply a behaviour-preserving change from a scratch worktree to /repo, run every quick
# check, undo it, and record which checks (if any) raised an alarm and of which kind.
set -u
NAME=$1; WT=$2
D=/verif/seeded/harmless/$NAME
mkdir -p $D
cp $WT/seed/patch.diff $D/patch.diff
cp $WT/seed/README.md $D/agent_README.md 2>/dev/null
cd /verif
git -C /repo apply $D/patch.diff || { echo "patch does not apply to /repo"; exit 2; }
out=$(./checkall quick 2>&1 | grep -E "^(OK|VIOLATION)")
git -C /repo checkout -- .
alarms=$(echo "$out" | grep -c "^VIOLATION")
echo "$out" | grep "^VIOLATION"
echo "harmless $NAME: $alarms alarm line(s)"
python3 - "$NAME" "$alarms" "$out" <<'PY'
import json,sys
name,alarms,out=sys.argv[1:4]
v=[l for l in out.split("\n") if l.startswith("VIOLATION")]
json.dump({"name":name,"kind":"behaviour-preserving change (no property is broken)","alarm_lines":v,
           "with_failing_input":[l for l in v if "no-failing-input-found" not in l],
           "ran":["git -C /repo apply patch.diff; ./checkall quick; git -C /repo checkout -- ."]},
          open(f"/verif/seeded/harmless/{name}/meta.json","w"),indent=1)
PY
rm -rf /verif/replays
